"""C14 — no peer can hold a session or delivery attempt beyond its configured timeouts.

Implementation: real SmtpEdge.handle (SmtpSession + smtp.Server, incl. real TLS with the harness certificate) against a client
that stalls / trickles at a chosen point; real StaticSmtpRelay / StaticLmtpRelay, PipeRelay and HttpRelay against peers that
stall at a chosen stage. Wall-clock, with small timeouts (command 80 ms, data 200 ms): the session / attempt must end where
Model/Timeouts.lean says, no earlier than 0.7 x and no later than the bound + a generous slack; still blocked at the watchdog
(many times the timeout) = violation.
"""
import time

from harness.core import CaseResult, hit, rng_for

RULE = ('side=server: stall point in {after banner, after EHLO / MAIL / RCPT / NOOP / RSET, in the middle of a command line, a command line trickled byte by '
        'byte, after 354, inside the message data, message data trickled, after the end-of-data reply, after an AUTH challenge (first, after an initial response, second), after the STARTTLS go-ahead, '
        'before an immediate-TLS handshake, at the closing of a TLS session} ; side=relay: stall stage in {connect, banner, EHLO, HELO, STARTTLS reply, '
        'STARTTLS handshake, immediate TLS, AUTH, MAIL, RCPT, DATA, end-of-data, RSET, QUIT} x PIPELINING on/off x SMTP/LMTP; side=pipe, http: the program / '
        'server never answers. distinct = distinct case descriptor; non-trivial = every case.')
BUDGET_S = {'quick': 170, 'thorough': 600}
CMD_T, DATA_T, CONN_T = 0.08, 0.20, 0.08
SLACK = 1.2
WATCHDOG = 3.0

SERVER_POINTS = ['after-banner', 'after-ehlo', 'after-mail', 'after-rcpt', 'after-noop', 'after-rset', 'mid-line', 'noop-plus-partial', 'eod-plus-partial', 'trickle-line', 'after-354',
                 'inside-data', 'trickle-data', 'slow-data-complete', 'slow-line-complete', 'after-eod', 'auth-challenge', 'auth-initial', 'auth-second', 'auth-refused-busy', 'starttls-handshake', 'tls-immediate', 'tls-close']
RELAY_STAGES = ['connect', 'banner', 'ehlo', 'helo', 'starttls', 'starttls-handshake', 'tls-immediate', 'auth', 'mail', 'rcpt', 'data', 'eod', 'rset', 'quit', 'tls-close']


def cases(tier, seed, phase):
    yield {'side': 'table'}
    for rep in range(2 if tier == 'quick' else 6):
        yield {'side': 'server-pair', 'rep': rep, 'stall_first': rep % 2 == 0}
    for rep in range(1 if tier == 'quick' else 3):
        for lmtp in (False, True):
            for what in ('partial-line', 'silent', 'garbage-line'):
                yield {'side': 'relay-idle', 'what': what, 'lmtp': lmtp, 'pipelining': rep % 2 == 0, 'rep': rep}
    reps = 1 if tier == 'quick' else 3
    for rep in range(reps):
        for p in SERVER_POINTS:
            yield {'side': 'server', 'point': p, 'rep': rep}
        for st in RELAY_STAGES:
            for pipelining in (True, False):
                for lmtp in (False, True):
                    if lmtp and st in ('helo',):
                        continue
                    yield {'side': 'relay', 'stage': st, 'pipelining': pipelining, 'lmtp': lmtp, 'rep': rep}
        for per in (True, False):
            yield {'side': 'pipe', 'per_recipient': per, 'rep': rep}
        yield {'side': 'http', 'what': 'no-response', 'rep': rep}
        yield {'side': 'http', 'what': 'partial-response', 'rep': rep}
        yield {'side': 'http', 'what': 'reuse-unfinished-body', 'rep': rep}
        yield {'side': 'http', 'what': 'reuse-second-unanswered', 'rep': rep}


def ms(x):
    return int(round(x * 1000))


def model_expect(model, who, steps):
    m = model.ask('timeouts %s %d %d %d %d %s' % (who, ms(CMD_T), ms(DATA_T), ms(CONN_T), ms(CMD_T), ';'.join(steps)))
    total, ending = m.split(' ')
    return int(total), ending


def tls_context():
    import os
    from gevent import ssl
    here = os.path.join(os.path.dirname(os.path.dirname(os.path.abspath(__file__))), 'fakes')
    ctx = ssl.SSLContext(ssl.PROTOCOL_TLS_SERVER)
    ctx.load_cert_chain(os.path.join(here, 'cert.pem'), os.path.join(here, 'key.pem'))
    return ctx


def client_tls_context():
    from gevent import ssl
    ctx = ssl.SSLContext(ssl.PROTOCOL_TLS_CLIENT)
    ctx.check_hostname = False
    ctx.verify_mode = ssl.CERT_NONE
    return ctx


# ---------------------------------------------------------------------------------------------------------------------
# server side

def run_server(case, model):
    import gevent
    from gevent import socket
    from slimta.edge.smtp import SmtpEdge

    class NullQueue(object):
        def enqueue(self, env):
            return [(env, 'id')]
    point = case['point']
    is_auth = point in ('auth-challenge', 'auth-initial', 'auth-second', 'auth-refused-busy')
    needs_tls = point in ('starttls-handshake', 'tls-immediate', 'tls-close') or is_auth
    edge = SmtpEdge(None, NullQueue(), auth=is_auth, context=tls_context() if needs_tls else None,
                    tls_immediately=(point == 'tls-immediate'), command_timeout=CMD_T, data_timeout=DATA_T, hostname='edge.example')
    a, b = socket.socketpair()
    t_end = {}

    def session():
        try:
            edge.handle(b, ('127.0.0.1', 40000))
        except BaseException as e:
            t_end['exc'] = type(e).__name__
        finally:
            t_end['t'] = time.time()
    g = gevent.spawn(session)
    f = a.makefile('rb')
    sock = {'s': a, 'f': f}
    got = []

    def reply():
        lines = []
        while True:
            l = sock['f'].readline()
            if not l:
                return None
            if not l.strip():
                continue            # the timeout reply starts on a fresh line
            lines.append(l)
            if l[3:4] != b'-':
                got.append(int(l[:3]))
                return int(l[:3])

    def send(d):
        sock['s'].sendall(d)
    ref = {'t': time.time()}         # the moment the last completed step ended (= the stalled wait began)
    steps = []
    trickler = None
    slow_complete = False
    try:
        with gevent.Timeout(WATCHDOG + 1):
            if point == 'tls-immediate':
                steps = ['tlsimmediate:inf']
                ref['t'] = time.time()
            else:
                reply()
                ref['t'] = time.time()
                steps = ['command:0']
                if point == 'after-banner':
                    pass
                else:
                    send(b'EHLO client.example\r\n'); reply(); ref['t'] = time.time()
                    if point == 'after-ehlo':
                        pass
                    elif point == 'slow-line-complete':
                        # a COMPLETE command, but in pieces a third of the command timeout apart and twice the timeout in all: every
                        # single gap is within the timeout, the line as a whole is not (the deadline is for the whole line, not per piece:
                        # the model mutant `timeouts-deadline-per-piece` survived the campaign until this point and the next existed)
                        def trickle():
                            try:
                                for ch in (b'N', b'O', b'O', b'P', b'\r', b'\n'):
                                    gevent.sleep(CMD_T / 3.0)
                                    sock['s'].sendall(ch)
                            except OSError:
                                pass
                        trickler = gevent.spawn(trickle)
                        steps = ['command:0', 'command:' + ','.join([str(ms(CMD_T / 3.0))] * 6)]
                        slow_complete = True
                    elif point == 'mid-line':
                        send(b'MAIL FR')
                    elif point == 'trickle-line':
                        def trickle():
                            try:
                                for ch in b'MAIL FROM:<aaaaaaaaaaaaaaaaaaaaaaaaaaaaaaaaaaaaaaaaaaaaaaaaaaaaaaaaaaaaaaaaaaaaaa' * 10:
                                    sock['s'].sendall(bytes([ch]))
                                    gevent.sleep(CMD_T / 4)
                            except OSError:
                                pass
                        trickler = gevent.spawn(trickle)
                    elif point == 'after-noop':
                        send(b'NOOP\r\n'); reply(); ref['t'] = time.time()
                    elif point == 'noop-plus-partial':
                        # a complete command and the beginning of the next line in ONE segment, then silence
                        send(b'NOOP\r\nNO'); reply(); ref['t'] = time.time()
                    elif point in ('starttls-handshake', 'tls-close') or is_auth:
                        send(b'STARTTLS\r\n'); reply(); ref['t'] = time.time()
                        if point == 'starttls-handshake':
                            steps = ['command:0', 'command:0', 'starttlshandshake:inf']
                        else:
                            from gevent import ssl as gssl
                            tls = client_tls_context().wrap_socket(a, server_hostname='edge.example')
                            sock['s'] = tls
                            sock['f'] = tls.makefile('rb')
                            send(b'EHLO client.example\r\n'); reply(); ref['t'] = time.time()
                            # now silent: 421 after the command timeout, then the close must not wait for our close_notify for ever
                            steps = ['command:0', 'command:inf']
                            if point == 'auth-refused-busy':
                                # an AUTH exchange that ends with an error reply (cancelled), then a client that is never idle for the
                                # length of the timeout: a NOOP every third of it for more than twice its length, and only then silence.
                                # The session must live through the busy phase and end one command timeout after the last NOOP.
                                send(b'AUTH LOGIN\r\n'); reply()
                                send(b'*\r\n'); reply(); ref['t'] = time.time()
                                busy_until = time.time() + 2.4 * CMD_T
                                while time.time() < busy_until:
                                    gevent.sleep(CMD_T / 3.0)
                                    send(b'NOOP\r\n')
                                    if reply() != 250:
                                        break
                                    ref['t'] = time.time()
                                steps = ['command:0', 'command:inf']
                            elif is_auth:
                                # silent after the first challenge / after the challenge that follows an initial response /
                                # after the second challenge
                                send(b'AUTH LOGIN dXNlcg==\r\n' if point == 'auth-initial' else b'AUTH LOGIN\r\n')
                                code = reply(); ref['t'] = time.time()
                                if point == 'auth-second' and code == 334:
                                    send(b'dXNlcg==\r\n')
                                    code = reply(); ref['t'] = time.time()
                                steps = ['command:0', 'command:0', 'authresponse:inf'] if code == 334 else ['command:0', 'command:inf']
                    else:
                        send(b'MAIL FROM:<s@example.com>\r\n'); reply(); ref['t'] = time.time()
                        if point == 'after-mail':
                            pass
                        else:
                            send(b'RCPT TO:<r@example.com>\r\n'); reply(); ref['t'] = time.time()
                            if point == 'after-rcpt':
                                pass
                            elif point == 'after-rset':
                                send(b'RSET\r\n'); reply(); ref['t'] = time.time()
                            else:
                                send(b'DATA\r\n'); reply(); ref['t'] = time.time()
                                steps = ['command:0', 'data:inf']
                                if point == 'after-354':
                                    pass
                                elif point == 'inside-data':
                                    send(b'Subject: x\r\n\r\nline one\r\npart of line two')
                                elif point == 'trickle-data':
                                    def trickle():
                                        try:
                                            while True:
                                                sock['s'].sendall(b'x')
                                                gevent.sleep(DATA_T / 5)
                                        except OSError:
                                            pass
                                    trickler = gevent.spawn(trickle)
                                elif point == 'slow-data-complete':
                                    # the whole message, end-of-data line included, in eight pieces a quarter of the data timeout apart
                                    def trickle():
                                        try:
                                            for piece in (b'Subject: x\r\n', b'\r\n', b'l1\r\n', b'l2\r\n', b'l3\r\n', b'l4\r\n', b'l5\r\n', b'.\r\n'):
                                                gevent.sleep(DATA_T / 4.0)
                                                sock['s'].sendall(piece)
                                        except OSError:
                                            pass
                                    trickler = gevent.spawn(trickle)
                                    steps = ['command:0', 'data:' + ','.join([str(ms(DATA_T / 4.0))] * 8)]
                                    slow_complete = True
                                elif point == 'after-eod':
                                    send(b'Subject: x\r\n\r\nbody\r\n.\r\n'); reply(); ref['t'] = time.time()
                                    steps = ['command:0', 'command:inf']
                                elif point == 'eod-plus-partial':
                                    # the end-of-data line and the beginning of the next command in ONE segment, then silence
                                    send(b'Subject: x\r\n\r\nbody\r\n.\r\nMAIL FR'); reply(); ref['t'] = time.time()
                                    steps = ['command:0', 'command:inf']
                if not steps or steps[-1].endswith(':0'):
                    steps.append('command:inf')
            # now wait for the session to end
            g.join(WATCHDOG)
    except gevent.Timeout:
        pass
    finally:
        if trickler is not None:
            trickler.kill(block=False)
    blocked = not g.ready()
    elapsed = (t_end.get('t', time.time()) - ref['t'])
    # read whatever the server said last (421 expected where it can be sent)
    last_codes = []
    debug = {}
    if not blocked and point not in ('tls-immediate', 'starttls-handshake'):
        try:
            with gevent.Timeout(0.3, False):
                while True:
                    c = reply()
                    if c is None:
                        break
                    last_codes.append(c)
        except Exception:
            pass
    if blocked:
        g.kill(block=False)
    try:
        a.close()
    except Exception:
        pass
    total, ending = model_expect(model, 'server', steps)
    expect = int(ending.split(':')[2]) / 1000.0 if ending.startswith('timeout') else None
    if (point == 'tls-close' or is_auth) and expect is not None:
        # after the 421 the session is closed; the TLS shutdown is one more wait in the command scope
        t2, e2 = model_expect(model, 'server', ['close:inf'])
        expect_hi = expect + int(e2.split(':')[2]) / 1000.0
    else:
        expect_hi = expect
    hits = []
    mismatch = None
    if blocked:
        hits.append(hit('c14.server-session-still-blocked.' + point, 'the server session is still blocked long after every timeout',
                        observed={'waited_s': WATCHDOG, 'command_timeout': CMD_T, 'data_timeout': DATA_T}))
        mismatch = {'op': 'timeouts server', 'impl': 'blocked', 'model': ending, 'point': point}
    elif expect is None:
        mismatch = {'op': 'timeouts server', 'impl': 'ended', 'model': ending}
    else:
        if elapsed < 0.7 * expect:
            hits.append(hit('c14.server-timeout-fired-early.' + point, 'the session was cut before the applicable timeout',
                            observed={'elapsed': round(elapsed, 3)}, expected=expect))
        if elapsed > expect_hi + SLACK:
            hits.append(hit('c14.server-session-held-too-long.' + point, 'the session outlived its timeout by far',
                            observed={'elapsed': round(elapsed, 3)}, expected=expect_hi))
        if slow_complete and mismatch is None:
            # which wait ended the session: the model says the slow one itself (index 1); had it completed, the server would have answered
            # it (250) before the 421 of the idle wait that follows
            k = int(ending.split(':')[1])
            answered = 250 in last_codes
            if (k == 1) == answered:
                mismatch = {'op': 'timeouts server', 'impl': 'the slow %s %s' % ('message' if 'data' in point else 'line', 'was answered' if answered else 'was cut'),
                            'model': ending, 'point': point}
        if point not in ('tls-immediate', 'starttls-handshake') and 421 not in last_codes:
            hits.append(hit('c14.no-421-on-timeout.' + point, 'the session ended without the 421 reply', observed=last_codes))
    return CaseResult(mismatch, hits, ('server', point, case['rep']), ['server', point])


# ---------------------------------------------------------------------------------------------------------------------
# relay side

class StallPeer(object):
    def __init__(self, sock, case):
        self.sock = sock
        self.case = case
        self.t_stall = None

    def stall(self):
        import gevent
        self.t_stall = time.time()
        gevent.sleep(30)

    def run(self):
        try:
            self._run()
        except (OSError, ValueError):
            pass
        finally:
            try:
                self.sock.close()
            except OSError:
                pass

    def _run(self):
        st = self.case['stage']
        s = self.sock
        f = s.makefile('rb')
        if st == 'tls-immediate':
            return self.stall()
        if st == 'banner':
            return self.stall()
        s.sendall(b'220 peer\r\n')
        while True:
            line = f.readline()
            if not line:
                return
            cmd = line.split(None, 1)[0].upper() if line.strip() else b''
            if cmd in (b'EHLO', b'LHLO'):
                if st == 'ehlo':
                    return self.stall()
                if st == 'helo':
                    s.sendall(b'500 5.5.1 no EHLO here\r\n')
                    continue
                ext = ['peer.example']
                if self.case['pipelining']:
                    ext.append('PIPELINING')
                ext.append('8BITMIME')
                if st in ('starttls', 'starttls-handshake') or (st == 'tls-close' and not getattr(self, 'tls_done', False)):
                    ext.append('STARTTLS')
                    self.tls_done = st == 'tls-close'
                if st == 'auth':
                    ext.append('AUTH PLAIN')
                s.sendall(''.join('250%s%s\r\n' % ('-' if i < len(ext) - 1 else ' ', l) for i, l in enumerate(ext)).encode())
            elif cmd == b'HELO':
                return self.stall()
            elif cmd == b'STARTTLS':
                if st == 'starttls':
                    return self.stall()
                s.sendall(b'220 2.7.0 go ahead\r\n')
                if st == 'tls-close':
                    # a real handshake, the session goes on encrypted; at QUIT the peer goes silent (no close notification either)
                    s = tls_context().wrap_socket(s, server_side=True)
                    self.sock = s
                    f = s.makefile('rb')
                    continue
                return self.stall()
            elif cmd == b'AUTH':
                return self.stall()
            elif cmd == b'MAIL':
                if st == 'mail':
                    return self.stall()
                s.sendall(b'250 ok\r\n')
            elif cmd == b'RCPT':
                if st == 'rcpt':
                    return self.stall()
                s.sendall(b'550 5.1.1 no such user\r\n' if st == 'rset' else b'250 ok\r\n')
            elif cmd == b'DATA':
                if st == 'data':
                    return self.stall()
                if st == 'rset':
                    s.sendall(b'554 5.5.1 no valid recipients\r\n')
                    continue
                s.sendall(b'354 go\r\n')
                while True:
                    l = f.readline()
                    if not l:
                        return
                    if l in (b'.\r\n', b'.\n'):
                        break
                if st == 'eod':
                    return self.stall()
                n = 2 if self.case['lmtp'] else 1
                s.sendall(b'250 2.0.0 done\r\n' * n)
            elif cmd == b'RSET':
                if st == 'rset':
                    return self.stall()
                s.sendall(b'250 ok\r\n')
            elif cmd == b'QUIT':
                if st in ('quit', 'tls-close'):
                    return self.stall()
                s.sendall(b'221 bye\r\n')
                return
            else:
                s.sendall(b'500 what\r\n')


def run_relay(case, model):
    import gevent
    from gevent import socket
    from slimta.relay import TransientRelayError, PermanentRelayError, RelayError
    from slimta.relay.smtp.static import StaticSmtpRelay, StaticLmtpRelay
    from slimta.envelope import Envelope
    st = case['stage']
    peers = []
    clients = []

    def creator(address):
        if st == 'connect':
            gevent.sleep(30)
        a, b = socket.socketpair()
        p = StallPeer(b, case)
        peers.append(p)
        gevent.spawn(p.run)
        return a
    kw = dict(socket_creator=creator, ehlo_as='relay.example', connect_timeout=CONN_T, command_timeout=CMD_T, data_timeout=DATA_T)
    if st in ('starttls', 'starttls-handshake', 'tls-close'):
        kw['context'] = client_tls_context()
        kw['tls_required'] = True
    if st == 'tls-immediate':
        kw['context'] = client_tls_context()
        kw['tls_immediately'] = True
    if st == 'auth':
        kw['credentials'] = ('user', 'secret')
    cls = StaticLmtpRelay if case['lmtp'] else StaticSmtpRelay
    relay = cls('peer.example', 25, **kw)
    orig_add = relay.add_client

    def add_client():
        c = orig_add()
        clients.append(c)
        return c
    relay.add_client = add_client
    env = Envelope('s@example.com', ['a@example.com', 'b@example.com'])
    env.parse(b'Subject: x\r\n\r\nbody\r\n')
    box = {}
    t0 = time.time()

    def go():
        try:
            box['ret'] = relay.attempt(env, 0)
        except RelayError as e:
            box['exc'] = e
        except BaseException as e:
            box['other'] = e
        box['t'] = time.time()
    g = gevent.spawn(go)
    g.join(WATCHDOG)
    blocked = not g.ready()
    # the client greenlet itself (QUIT, close) must end too
    t_client = None
    if clients:
        clients[0].join(WATCHDOG)
        t_client = None if not clients[0].ready() else time.time()
    t_stall = peers[0].t_stall if peers and peers[0].t_stall else t0
    for c in list(relay.pool):
        c.kill(block=False)
    if blocked:
        g.kill(block=False)
    # model: the stalled stage's scope decides
    stage_name = {'eod': 'senddata', 'starttls-handshake': 'starttls', 'tls-immediate': 'tlsimmediate', 'tls-close': 'close'}.get(st, st)
    total, ending = model_expect(model, 'relay', ['%s:inf' % stage_name])
    expect = int(ending.split(':')[2]) / 1000.0 if ending.startswith('timeout') else None
    hits = []
    mismatch = None
    tagst = '%s.%s.%s' % (st, 'lmtp' if case['lmtp'] else 'smtp', 'pipelining' if case['pipelining'] else 'no-pipelining')
    if st in ('quit', 'rset', 'tls-close'):
        # the result is already there when QUIT (or the RSET after a refused transaction) is sent: the attempt returns at once, the client greenlet at the command timeout
        if blocked or ('ret' not in box and 'exc' not in box):
            hits.append(hit('c14.relay-attempt-still-blocked.' + st, 'the attempt did not return although its result was already known', observed=str(box)[:200]))
        if t_client is None:
            hits.append(hit('c14.relay-client-still-blocked.' + st, 'the relay client greenlet is still blocked in its disconnect', observed={'waited_s': WATCHDOG}))
            mismatch = {'op': 'timeouts relay', 'impl': 'client blocked', 'model': ending}
    elif blocked:
        hits.append(hit('c14.relay-attempt-still-blocked.' + st, 'the relay attempt is still blocked long after every timeout',
                        observed={'waited_s': WATCHDOG, 'stage': tagst}))
        mismatch = {'op': 'timeouts relay', 'impl': 'blocked', 'model': ending, 'stage': tagst}
    else:
        elapsed = box['t'] - t_stall
        if 'other' in box:
            hits.append(hit('c14.relay-attempt-raised-non-relay-error.' + st, 'the attempt ended with something that is not a relay error', observed=repr(box['other'])))
        elif 'exc' in box and not isinstance(box['exc'], TransientRelayError):
            hits.append(hit('c14.relay-timeout-not-transient.' + st, 'a stalled peer must give a transient failure', observed=repr(box['exc'])))
        elif 'ret' in box:
            hits.append(hit('c14.relay-attempt-succeeded-against-stall.' + st, 'the attempt reports success although the peer stalled', observed=str(box['ret'])[:200]))
        if expect is None:
            mismatch = {'op': 'timeouts relay', 'impl': 'ended', 'model': ending}
        else:
            if elapsed < 0.7 * expect:
                hits.append(hit('c14.relay-timeout-fired-early.' + st, 'the attempt was cut before the applicable timeout', observed={'elapsed': round(elapsed, 3)}, expected=expect))
            if elapsed > expect + SLACK:
                hits.append(hit('c14.relay-attempt-held-too-long.' + st, 'the attempt outlived its timeout by far', observed={'elapsed': round(elapsed, 3)}, expected=expect))
        if t_client is None:
            hits.append(hit('c14.relay-client-still-blocked.' + st, 'the relay client greenlet is still blocked after the attempt returned', observed={'waited_s': WATCHDOG}))
    return CaseResult(mismatch, hits, ('relay', st, case['pipelining'], case['lmtp'], case['rep']), ['relay', st])


def run_pipe(case, model):
    import gevent
    from slimta.relay.pipe import PipeRelay
    from slimta.relay import TransientRelayError, RelayError
    from slimta.envelope import Envelope
    relay = PipeRelay(['/bin/sh', '-c', 'cat > /dev/null; sleep 5'], timeout=CMD_T)
    relay.per_recipient = case['per_recipient']
    env = Envelope('s@example.com', ['a@example.com', 'b@example.com'])
    env.parse(b'Subject: x\r\n\r\nbody\r\n')
    box = {}
    t0 = time.time()

    def go():
        try:
            box['ret'] = relay.attempt(env, 0)
        except RelayError as e:
            box['exc'] = e
        except BaseException as e:
            box['other'] = e
        box['t'] = time.time()
    g = gevent.spawn(go)
    g.join(WATCHDOG)
    total, ending = model_expect(model, 'pipe', ['single:inf'])
    expect = int(ending.split(':')[2]) / 1000.0
    hits = []
    mismatch = None
    if not g.ready():
        g.kill(block=False)
        hits.append(hit('c14.pipe-attempt-still-blocked', 'the pipe relay attempt is still blocked', observed={'waited_s': WATCHDOG}))
        mismatch = {'op': 'timeouts pipe', 'impl': 'blocked', 'model': ending}
    else:
        elapsed = box['t'] - t0
        ret = box.get('ret')
        transient = isinstance(box.get('exc'), TransientRelayError) or (hasattr(ret, 'values') and all(isinstance(v, TransientRelayError) for v in ret.values()))
        if not transient:
            hits.append(hit('c14.pipe-timeout-not-transient', 'a program that never ends must give a transient failure', observed=str(box)[:200]))
        if elapsed > expect + SLACK or elapsed < 0.7 * expect:
            hits.append(hit('c14.pipe-attempt-duration', 'the pipe attempt did not end at its timeout', observed={'elapsed': round(elapsed, 3)}, expected=expect))
    return CaseResult(mismatch, hits, ('pipe', case['per_recipient'], case['rep']), ['pipe'])


def run_http_reuse(case, model):
    """A kept-alive connection: the first delivery is answered at once (in one variant its announced body never ends), the second
    delivery over the same connection is not answered. Each attempt must end within the single configured timeout."""
    import gevent
    from gevent.server import StreamServer
    from slimta.relay.http import HttpRelay
    from slimta.relay import TransientRelayError, RelayError
    from slimta.envelope import Envelope
    unfinished = case['what'] == 'reuse-unfinished-body'

    def handler(sock, addr):
        try:
            f = sock.makefile('rb')
            clen = 0
            while True:
                l = f.readline()
                if not l or l in (b'\r\n', b'\n'):
                    break
                if l.lower().startswith(b'content-length:'):
                    clen = int(l.split(b':')[1])
            f.read(clen)
            body = b'ok\n'
            sock.sendall(b'HTTP/1.1 200 OK\r\nContent-Length: %d\r\nX-Smtp-Reply: 250; message="2.6.0 ok"\r\n\r\n' % (100 if unfinished else len(body)) + body)
            gevent.sleep(30)       # the connection stays open; nothing more is ever sent
        except OSError:
            pass
        finally:
            sock.close()
    srv = StreamServer(('127.0.0.1', 0), handler)
    srv.start()
    relay = HttpRelay('http://127.0.0.1:%d/' % srv.server_port, timeout=CMD_T, idle_timeout=5.0, ehlo_as='relay.example')
    total, ending = model_expect(model, 'http', ['single:inf'])
    expect = int(ending.split(':')[2]) / 1000.0
    hits = []
    mismatch = None
    try:
        for n in (1, 2):
            env = Envelope('s@example.com', ['a@example.com'])
            env.parse(b'Subject: x\r\n\r\nbody\r\n')
            box = {}
            t0 = time.time()

            def go():
                try:
                    box['ret'] = relay.attempt(env, 0)
                except RelayError as e:
                    box['exc'] = e
                except BaseException as e:
                    box['other'] = e
                box['t'] = time.time()
            g = gevent.spawn(go)
            g.join(WATCHDOG)
            if not g.ready():
                g.kill(block=False)
                hits.append(hit('c14.http-attempt-still-blocked.%s.attempt%d' % (case['what'], n), 'the HTTP relay attempt is still blocked',
                                observed={'waited_s': WATCHDOG}))
                mismatch = {'op': 'timeouts http', 'impl': 'blocked', 'model': ending}
                break
            elapsed = box['t'] - t0
            if elapsed > expect + SLACK:
                hits.append(hit('c14.http-attempt-duration', 'the HTTP attempt did not end within its timeout', observed={'attempt': n, 'elapsed': round(elapsed, 3)}, expected=expect))
                break
            if 'other' in box:
                hits.append(hit('c14.http-not-a-relay-result', 'the HTTP attempt ended with something other than a result or a relay error', observed=repr(box['other'])[:200]))
                break
            if n == 2 and 'exc' in box and not isinstance(box['exc'], TransientRelayError):
                hits.append(hit('c14.http-timeout-not-transient', 'a server that does not answer must give a transient failure', observed=str(box)[:200]))
    finally:
        srv.stop()
        for c in list(relay.pool):
            c.kill(block=False)
    return CaseResult(mismatch, hits, ('http', case['what'], case['rep']), ['http', 'http-reuse'])


def run_http(case, model):
    if case['what'].startswith('reuse-'):
        return run_http_reuse(case, model)
    import gevent
    from gevent.server import StreamServer
    from slimta.relay.http import HttpRelay
    from slimta.relay import TransientRelayError, RelayError
    from slimta.envelope import Envelope

    def handler(sock, addr):
        try:
            if case['what'] == 'partial-response':
                f = sock.makefile('rb')
                while True:
                    l = f.readline()
                    if not l or l in (b'\r\n', b'\n'):
                        break
                sock.sendall(b'HTTP/1.1 200 OK\r\nContent-Le')
            gevent.sleep(30)
        except OSError:
            pass
        finally:
            sock.close()
    srv = StreamServer(('127.0.0.1', 0), handler)
    srv.start()
    relay = HttpRelay('http://127.0.0.1:%d/' % srv.server_port, timeout=CMD_T, ehlo_as='relay.example')
    env = Envelope('s@example.com', ['a@example.com'])
    env.parse(b'Subject: x\r\n\r\nbody\r\n')
    box = {}
    t0 = time.time()

    def go():
        try:
            box['ret'] = relay.attempt(env, 0)
        except RelayError as e:
            box['exc'] = e
        except BaseException as e:
            box['other'] = e
        box['t'] = time.time()
    g = gevent.spawn(go)
    g.join(WATCHDOG)
    total, ending = model_expect(model, 'http', ['single:inf'])
    expect = int(ending.split(':')[2]) / 1000.0
    hits = []
    mismatch = None
    try:
        if not g.ready():
            g.kill(block=False)
            hits.append(hit('c14.http-attempt-still-blocked.' + case['what'], 'the HTTP relay attempt is still blocked', observed={'waited_s': WATCHDOG}))
            mismatch = {'op': 'timeouts http', 'impl': 'blocked', 'model': ending}
        else:
            elapsed = box['t'] - t0
            if not isinstance(box.get('exc'), TransientRelayError):
                hits.append(hit('c14.http-timeout-not-transient', 'a server that never answers must give a transient failure', observed=str(box)[:200]))
            if elapsed > expect + SLACK or elapsed < 0.7 * expect:
                hits.append(hit('c14.http-attempt-duration', 'the HTTP attempt did not end at its timeout', observed={'elapsed': round(elapsed, 3)}, expected=expect))
    finally:
        srv.stop()
        for c in list(relay.pool):
            c.kill(block=False)
    return CaseResult(mismatch, hits, ('http', case['what'], case['rep']), ['http'])


def run_server_pair(case, model):
    """Two sessions at the same edge: one goes silent after EHLO, the other keeps talking. The silent one must get its 421 at its own
    command timeout, the busy one must not be disturbed (timers are per session)."""
    import gevent
    from gevent import socket
    from slimta.edge.smtp import SmtpEdge

    class NullQueue(object):
        def enqueue(self, env):
            return [(env, 'id')]
    edge = SmtpEdge(None, NullQueue(), command_timeout=CMD_T, data_timeout=DATA_T, hostname='edge.example')
    out = {}

    def reply(f):
        while True:
            l = f.readline()
            if not l:
                return None
            if l.strip() and l[3:4] != b'-':
                return int(l[:3])

    def silent():
        a, b = socket.socketpair()
        g = gevent.spawn(edge.handle, b, ('127.0.0.1', 40001))
        f = a.makefile('rb')
        reply(f)
        a.sendall(b'EHLO silent.example\r\n'); reply(f)
        t0 = time.time()
        with gevent.Timeout(WATCHDOG, False):
            out['silent_code'] = reply(f)
            out['silent_t'] = time.time() - t0
        a.close()
        g.kill(block=False)

    def busy():
        a, b = socket.socketpair()
        g = gevent.spawn(edge.handle, b, ('127.0.0.1', 40002))
        f = a.makefile('rb')
        codes = [reply(f)]
        a.sendall(b'EHLO busy.example\r\n'); codes.append(reply(f))
        with gevent.Timeout(WATCHDOG, False):
            for _ in range(8):
                gevent.sleep(CMD_T / 3)
                a.sendall(b'NOOP\r\n')
                codes.append(reply(f))
            a.sendall(b'QUIT\r\n'); codes.append(reply(f))
        out['busy_codes'] = codes
        a.close()
        g.kill(block=False)
    order = [silent, busy] if case['stall_first'] else [busy, silent]
    gs = [gevent.spawn(fn) for fn in order]
    gevent.joinall(gs, timeout=WATCHDOG + 2)
    hits = []
    if out.get('silent_code') != 421 or not (0.7 * CMD_T <= out.get('silent_t', 99) <= CMD_T + SLACK):
        hits.append(hit('c14.server-pair.silent-session', 'with another session busy at the same edge, the silent session did not get its 421 at its command timeout',
                        observed={'code': out.get('silent_code'), 'after_s': round(out.get('silent_t', -1), 3)}, expected={'code': 421, 'after_s': CMD_T}))
    if out.get('busy_codes') != [220, 250] + [250] * 8 + [221]:
        hits.append(hit('c14.server-pair.busy-session-disturbed', 'a session that kept talking was cut off or mis-answered while another session at the same edge timed out',
                        observed=out.get('busy_codes')))
    return CaseResult(None, hits, ('server-pair', case['rep']), ['server-pair'])


def run_relay_idle(case, model):
    """A kept connection: the first message is delivered, then the peer says the beginning of a line (or nothing, or a line that is
    no reply) and goes silent with the connection open; a second message is handed to the same pooled client. The second attempt
    must end within the command timeout (plus what a delivery over a new connection takes) with a result or a transient failure."""
    import gevent
    from gevent import socket
    from slimta.relay import RelayError
    from slimta.relay.smtp.static import StaticSmtpRelay, StaticLmtpRelay
    from slimta.envelope import Envelope
    conns = []

    def peer(sock, first):
        f = sock.makefile('rb')
        try:
            sock.sendall(b'220 peer ready\r\n')
            n = 0
            while True:
                l = f.readline()
                if not l:
                    return
                cmd = l.split(None, 1)[0].upper() if l.strip() else b''
                if cmd in (b'EHLO', b'LHLO'):
                    sock.sendall(b'250-peer\r\n250 PIPELINING\r\n' if case['pipelining'] else b'250 peer\r\n')
                elif cmd == b'DATA':
                    sock.sendall(b'354 go\r\n')
                    while f.readline() not in (b'.\r\n', b''):
                        pass
                    sock.sendall(b'250 2.0.0 ok\r\n' * (2 if case['lmtp'] else 1))
                    n += 1
                    if first and n == 1:
                        gevent.sleep(0.01)
                        if case['what'] == 'partial-line':
                            sock.sendall(b'421 4.4.2 idl')
                        elif case['what'] == 'garbage-line':
                            sock.sendall(b'this is not a reply')
                        gevent.sleep(30)          # silent, connection open
                        return
                elif cmd == b'QUIT':
                    sock.sendall(b'221 bye\r\n')
                    return
                else:
                    sock.sendall(b'250 ok\r\n')
        except OSError:
            pass

    def creator(address):
        a, b = socket.socketpair()
        conns.append(gevent.spawn(peer, b, not conns))
        return a
    cls = StaticLmtpRelay if case['lmtp'] else StaticSmtpRelay
    relay = cls('peer.example', 25, socket_creator=creator, ehlo_as='relay.example', connect_timeout=CONN_T, command_timeout=CMD_T,
                data_timeout=DATA_T, idle_timeout=5.0, pool_size=1)
    hits = []
    try:
        for n in (1, 2):
            env = Envelope('s@example.com', ['a@example.com', 'b@example.com'])
            env.parse(b'Subject: x\r\n\r\nbody %d\r\n' % n)
            box = {}
            t0 = time.time()

            def go():
                try:
                    box['ret'] = relay.attempt(env, 0)
                except RelayError as e:
                    box['exc'] = e
                except BaseException as e:
                    box['other'] = e
                box['t'] = time.time()
            g = gevent.spawn(go)
            g.join(WATCHDOG)
            if not g.ready():
                g.kill(block=False)
                hits.append(hit('c14.relay-attempt-still-blocked.idle-%s.attempt%d' % (case['what'], n), 'an attempt over a kept connection is still blocked',
                                observed={'waited_s': WATCHDOG}))
                break
            if 'other' in box:
                hits.append(hit('c14.relay-attempt-raised-non-relay-error.idle', 'the attempt ended with something other than a result or a relay error',
                                observed=repr(box['other'])[:200]))
                break
            if n == 1 and 'ret' not in box:
                break       # the first delivery did not go through: nothing to say about reuse
            if box['t'] - t0 > 2 * CMD_T + DATA_T + SLACK:
                hits.append(hit('c14.relay-attempt-held-too-long.idle-' + case['what'], 'an attempt over a kept connection was held beyond its timeouts',
                                observed={'elapsed': round(box['t'] - t0, 3)}))
                break
            gevent.sleep(0.03)
    finally:
        for c in list(relay.pool):
            c.kill(block=False)
        for g in conns:
            g.kill(block=False)
    return CaseResult(None, hits, ('relay-idle', case['what'], case['lmtp'], case['pipelining'], case['rep']), ['relay-idle'])


def run_table(case, model):
    """The scope table extracted from the current source (harness/scopes.py, `ast`) against the model's table."""
    from harness import scopes
    table, problems = scopes.extract()
    impl = scopes.render(table)
    m = model.ask('timeouts table')
    mismatch = None
    if impl != m or problems:
        diff = [x for x in impl.replace(' | ', ' ').split(' ') if x not in m.replace(' | ', ' ').split(' ')]
        mismatch = {'op': 'timeouts table', 'impl': diff or impl, 'model': [x for x in m.replace(' | ', ' ').split(' ') if x not in impl.replace(' | ', ' ').split(' ')],
                    'problems': problems[:5]}
    return CaseResult(mismatch, [], ('table',), ['scope-table'])


def run_case(case, model):
    """Wall-clock observations are repeated before they are believed: a finding is reported only if the same case fails three times in
    a row with the same signature (a wrong or missing timeout fails every time; a machine that was busy for a moment does not)."""
    r = _attempt_case(case, model)
    if case['side'] == 'table':
        return r
    for _ in range(2):
        if not r.hits and not r.mismatch:
            return r
        first = r.hits[0]['signature'] if r.hits else None
        r2 = _attempt_case(case, model)
        if (first is not None and not any(h['signature'] == first for h in r2.hits)) or (first is None and not r2.mismatch):
            r2.tags.append('wall-clock-retry')      # did not repeat: what the second run saw (possibly another finding) is examined in turn
            r = r2
            continue
        r = r2
    return r


def _attempt_case(case, model):
    """The scripted part of a case (banner, EHLO, MAIL, ... up to the stall point) is itself under the server's command timeout: on a
    machine that keeps this process waiting for longer than that, the session is cut before the script gets to its point and the next
    write fails. That says nothing about the code: the case is run again (three times; a server that cuts sessions early fails each time
    and the error stands)."""
    for n in range(3):
        try:
            return _run_case(case, model)
        except OSError:
            if n == 2:
                raise
            import gevent
            gevent.sleep(0.05 * (n + 1))


def _run_case(case, model):
    if case['side'] == 'table':
        return run_table(case, model)
    if case['side'] == 'server-pair':
        return run_server_pair(case, model)
    if case['side'] == 'relay-idle':
        return run_relay_idle(case, model)
    import gevent
    try:
        gevent.get_hub().exception_stream = None
    except Exception:
        pass
    return {'server': run_server, 'relay': run_relay, 'pipe': run_pipe, 'http': run_http}[case['side']](case, model)
