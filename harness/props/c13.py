"""C13 — failed mail yields exactly one bounce per distinct failure reply, and bounces never loop.

Implementation: real Queue (+ real Bounce) driven through failure histories on the dict backend and, for a share of the cases,
on the disk backend (whose calls yield, so that the order of bookkeeping around a storage call matters), with a recording
bounce factory and bounce queue.
Model: `attempt run` of the Lean driver (Model/Attempt.lean).
"""
from harness.core import rng_for
from harness.props import _queuehist as qh

RULE = ('failure histories: 1..6 recipients, up to 4 attempts, whole-message permanent / transient / unexpected '
        'exception, per-recipient mapping or sequence results with equal or different replies, backoff tables that '
        'stop retrying, null sender, bounce factory returning None, headers-only bounces; the bounce of every case is '
        'also checked to be a null-sender message (so its own failure produces nothing: covered by the null-sender '
        'cases). distinct = distinct case descriptor; non-trivial = at least one failing outcome.')
BUDGET_S = {'quick': 150, 'thorough': 1200}


def cases(tier, seed, phase):
    n = 1500 if tier == 'quick' else 20000
    for j in range(n):
        def mk(j=j):
            rng = rng_for(seed, 'c13', j)
            nr = rng.choice([1, 1, 2, 2, 3, 4, 6])
            kinds = rng.choice(['MQ', 'MQPT', 'MQPTX', 'PT', 'MMQS'])
            backend = 'disk' if j % 5 == 4 else 'dict'        # a yielding backend for every fifth case
            return {'backend': backend, 'rcpts': list(range(nr)), 'outcomes': qh.gen_history(rng, nr, rng.randint(1, 4), kinds, nreplies=rng.choice([1, 2, 3])),
                    'backoff': qh.gen_backoff(rng, 3), 'sender': rng.random() < 0.8, 'factory': rng.random() < 0.85,
                    'headers_only': rng.random() < 0.25, 'pools': [1, 1] if (backend == 'disk' and j % 10 == 9) else None}
        yield mk
    for j in range(300 if tier == 'quick' else 5000):
        def mk(j=j):
            rng = rng_for(seed, 'c13f', j)
            nr = rng.choice([2, 2, 3, 4])
            return {'backend': 'dict' if j % 3 else 'disk', 'rcpts': list(range(nr)),
                    'outcomes': qh.gen_history(rng, nr, rng.randint(1, 3), rng.choice(['MQ', 'MQP', 'MMQ']), nreplies=rng.choice([1, 2])),
                    'backoff': qh.gen_backoff(rng, 2), 'sender': True, 'factory': True, 'headers_only': False, 'pools': None,
                    'store_fail': [rng.choice(['set_recipients_delivered', 'set_timestamp', 'increment_attempts', 'remove']), rng.choice([0, 0, 1])]}
        yield mk


def run_case(case, model):
    return qh.run_case(case, model, {'C13'})


def sched_cases(tier, seed):
    """Scheduler runs (the harness of C12: virtual clock, held relay answers with per-recipient verdicts in mapping / reversed
    mapping / sequence form, held storage calls, flushes, announcements, bounded pools), replayed through the composed queue machine
    (Model/QueueM.lean: scheduler + storage contents + ledger + bounces) and watched by the C13 monitors over what the relay, the
    bounce factory and the storage saw."""
    from harness.props import c12
    for j in range(2500 if tier == 'quick' else 40000):
        def mk(j=j):
            rng = rng_for(seed, 'c13q', j)
            return {'sched': True, 'script': None, 'seed': rng.randrange(1 << 30), 'backoff': rng.choice(c12.BACKOFFS), 'preload': rng.choice([0, 0, 1, 2]),
                    'pools': rng.choice([None, None, None, [3, 3]]), 'nmsg': rng.choice([1, 2, 3, 4]), 'steps': rng.choice([10, 16, 24, 32]),
                    'holds': rng.random() < 0.4, 'idorder': rng.choice(['asc', 'desc']), 'stale': rng.random() < 0.3}
        yield mk


_base_cases = cases


def cases(tier, seed, phase):          # noqa: F811  (the scheduler scenarios are appended)
    for c in _base_cases(tier, seed, phase):
        yield c
    for c in sched_cases(tier, seed):
        yield c


_base_run_case = run_case


def run_case(case, model):          # noqa: F811
    if case.get('sched'):
        from harness.core import CaseResult
        from harness.props import c12
        r = c12.run_case(case, model)
        hits = [h for h in r.hits if h['signature'].startswith('c13.')]
        return CaseResult(r.mismatch, hits, ('sched',) + tuple(r.key) if r.key else None, ['sched'] + [t for t in r.tags if t.startswith('label:') or t.startswith('outcome:')])
    return _base_run_case(case, model)
