"""C13 — failed mail yields exactly one bounce per distinct failure reply, and bounces never loop.

Implementation: real Queue (+ real Bounce) driven through failure histories on the dict backend and, for a share of the cases,
on the disk backend (whose calls yield, so that the order of bookkeeping around a storage call matters), with a recording
bounce factory and bounce queue.
Model: `attempt run` of the Lean driver (Model/Attempt.lean).
"""
from harness.core import rng_for
from harness.props import _queuehist as qh

RULE = ('failure histories: 1..6 recipients, up to 4 attempts, whole-message permanent / transient / unexpected '
        'exception, per-recipient mapping or sequence results with equal or different replies, backoff tables that '
        'stop retrying, null sender, bounce factory returning None, headers-only bounces; the bounce of every case is '
        'also checked to be a null-sender message (so its own failure produces nothing: covered by the null-sender '
        'cases). distinct = distinct case descriptor; non-trivial = at least one failing outcome.')
BUDGET_S = {'quick': 150, 'thorough': 1200}


def cases(tier, seed, phase):
    n = 1500 if tier == 'quick' else 20000
    for j in range(n):
        def mk(j=j):
            rng = rng_for(seed, 'c13', j)
            nr = rng.choice([1, 1, 2, 2, 3, 4, 6])
            kinds = rng.choice(['MQ', 'MQPT', 'MQPTX', 'PT', 'MMQS'])
            backend = 'disk' if j % 5 == 4 else 'dict'        # a yielding backend for every fifth case
            return {'backend': backend, 'rcpts': list(range(nr)), 'outcomes': qh.gen_history(rng, nr, rng.randint(1, 4), kinds, nreplies=rng.choice([1, 2, 3])),
                    'backoff': qh.gen_backoff(rng, 3), 'sender': rng.random() < 0.8, 'factory': rng.random() < 0.85,
                    'headers_only': rng.random() < 0.25, 'pools': [1, 1] if (backend == 'disk' and j % 10 == 9) else None}
        yield mk
    for j in range(300 if tier == 'quick' else 5000):
        def mk(j=j):
            rng = rng_for(seed, 'c13f', j)
            nr = rng.choice([2, 2, 3, 4])
            return {'backend': 'dict' if j % 3 else 'disk', 'rcpts': list(range(nr)),
                    'outcomes': qh.gen_history(rng, nr, rng.randint(1, 3), rng.choice(['MQ', 'MQP', 'MMQ']), nreplies=rng.choice([1, 2])),
                    'backoff': qh.gen_backoff(rng, 2), 'sender': True, 'factory': True, 'headers_only': False, 'pools': None,
                    'store_fail': [rng.choice(['set_recipients_delivered', 'set_timestamp', 'increment_attempts', 'remove']), rng.choice([0, 0, 1])]}
        yield mk


def run_case(case, model):
    return qh.run_case(case, model, {'C13'})


def sched_cases(tier, seed):
    """Scheduler runs (the harness of C12: virtual clock, held relay answers with per-recipient verdicts in mapping / reversed
    mapping / sequence form, held storage calls, flushes, announcements, bounded pools), replayed through the composed queue machine
    (Model/QueueM.lean: scheduler + storage contents + ledger + bounces) and watched by the C13 monitors over what the relay, the
    bounce factory and the storage saw."""
    from harness.props import c12
    for j in range(2500 if tier == 'quick' else 40000):
        def mk(j=j):
            rng = rng_for(seed, 'c13q', j)
            return {'sched': True, 'script': None, 'seed': rng.randrange(1 << 30), 'backoff': rng.choice(c12.BACKOFFS), 'preload': rng.choice([0, 0, 1, 2]),
                    'pools': rng.choice([None, None, None, [3, 3]]), 'nmsg': rng.choice([1, 2, 3, 4]), 'steps': rng.choice([10, 16, 24, 32]),
                    'holds': rng.random() < 0.4, 'idorder': rng.choice(['asc', 'desc']), 'stale': rng.random() < 0.3}
        yield mk


_base_cases = cases


def cases(tier, seed, phase):          # noqa: F811  (the scheduler scenarios are appended)
    for c in _base_cases(tier, seed, phase):
        yield c
    for c in sched_cases(tier, seed):
        yield c


_base_run_case = run_case


def run_case(case, model):          # noqa: F811
    if case.get('sched'):
        from harness.core import CaseResult
        from harness.props import c12
        r = c12.run_case(case, model)
        hits = [h for h in r.hits if h['signature'].startswith('c13.')]
        return CaseResult(r.mismatch, hits, ('sched',) + tuple(r.key) if r.key else None, ['sched'] + [t for t in r.tags if t.startswith('label:') or t.startswith('outcome:')])
    return _base_run_case(case, model)


# ---------------------------------------------------------------------------------------------
# the bytes of a bounce message (Model/Bounce.lean): real Bounce / BytesFormat against the model

_WORDS = ['Delivery', 'failed', '{sender}', '{recipients}', '{code}', '{message}', '{boundary}', '{delivery_info}', '{content_type}',
          '{client_name}', '{client_ip}', '{protocol}', '{nosuchkey}', '{0}', '{', '}', '{}', '{a b}', '{{code}}', 'X-Note: x', '\n', '\r\n', ': ', ' ', '\t',
          'Subject: bounce', 'To: {sender}', '\n\n', '--{boundary}', 'café']


def _bx(b):
    return b.hex() if b else '_'


def content_cases(tier, seed):
    for j in range(700 if tier == 'quick' else 14000):
        def mk(j=j):
            rng = rng_for(seed, 'c13c', j)
            sender = rng.choice(['a@example.com', 'someone.else+tag@sub.example.org', '"quoted sender"@example.com', 'jürgen@example.com', 'x', 'a b@example.com'])
            rcpts = ['r%d@%s' % (i, rng.choice(['example.com', 'other.example', 'x.test'])) for i in range(rng.choice([1, 1, 2, 3, 5]))]
            client = rng.choice([None, {}, {'name': 'mail.example.com', 'ip': '192.0.2.7'}, {'name': 'only.name'}, {'ip': '2001:db8::1', 'protocol': 'ESMTPS'}])
            code = rng.choice(['550', '552', '450', '421', '554'])
            message = rng.choice(['5.1.1 No such user', '4.0.0 temp r1 (Too many retries)', 'multi\r\nline answer', 'café closed', '', '5.0.0 {code} braces {boundary}', '  spaced  '])
            address = rng.choice([None, 'mx.example.net', ('mx2.example.net', 25), ''])
            nl = rng.choice(['\r\n', '\r\n', '\n'])
            hdr = nl.join(rng.sample(['From: orig@sender.example', 'Subject: test é', 'X-Long: a' + nl + ' b', 'Message-Id: <1@x>', 'To: you@example.com'], rng.randint(1, 4)))
            body = rng.choice([b'line one\r\n.\r\n\xff\xfe body\r\n', b'', b'no newline at end', b'bare\nlf\nlines\n', b'\r\n\r\nleading blank lines\r\n', b'--boundary_=abc--\r\n'])
            tpl = None
            if rng.random() < 0.35:
                # custom templates (class attributes of a subclass), as text or bytes, LF line ends allowed
                def mktpl(n):
                    return ''.join(rng.choice(_WORDS) + rng.choice(['', ' ', '\n']) for _ in range(n))
                tpl = ['Subject: custom\nTo: {sender}\n\n' + mktpl(rng.randint(0, 8)) if rng.random() < 0.7 else mktpl(rng.randint(1, 10)), mktpl(rng.randint(0, 4)),
                       rng.random() < 0.5]
            return {'kind': 'content', 'sender': sender, 'rcpts': rcpts, 'client': client, 'code': code, 'message': message, 'address': list(address) if isinstance(address, tuple) else address,
                    'orig': (hdr + nl + nl).encode('utf-8').hex() + body.hex(), 'headers_only': rng.random() < 0.3, 'tpl': tpl}
        yield mk
    for j in range(500 if tier == 'quick' else 10000):
        def mk(j=j):
            rng = rng_for(seed, 'c13b', j)
            tpl = ''.join(rng.choice(_WORDS + ['{k1}', '{k_2}', '{K3}', 'lit']) for _ in range(rng.randint(0, 9))).encode('utf-8')
            tbl = dict((k, rng.choice([b'', b'v', b'{code}', b'\xff\r\n'])) for k in rng.sample(['k1', 'k_2', 'K3', 'code', 'sender', 'boundary'], rng.randint(0, 4)))
            return {'kind': 'format', 'tpl': tpl.hex(), 'tbl': dict((k, v.hex()) for k, v in tbl.items()), 'mode': rng.choice(['remove', 'ignore'])}
        yield mk


def run_content(case, model):
    import slimta.bounce as bmod
    from slimta.bounce import Bounce
    from slimta.envelope import Envelope
    from slimta.smtp.reply import Reply
    from slimta.util.bytesformat import BytesFormat
    from harness.core import CaseResult, hit

    def showparts(parts):
        return ','.join(('L' if t == 0 else 'K') + v.hex() for t, v in parts) or '-'
    if case['kind'] == 'format':
        tpl = bytes.fromhex(case['tpl'])
        bf = BytesFormat(tpl, mode=case['mode'])
        kw = dict((k, bytes.fromhex(v)) for k, v in case['tbl'].items())
        impl = showparts(bf.template_parts) + ' ' + _bx(bf.format(**kw))
        mo = model.ask('bounce parse %s' % _bx(tpl)) + ' ' + model.ask('bounce format %d %s %s' % (
            1 if case['mode'] == 'remove' else 0, _bx(tpl), ','.join('%s=%s' % (k.encode().hex(), _bx(v)) for k, v in sorted(kw.items())) or '-'))
        mm = None if impl == mo else {'op': 'bounce parse/format', 'impl': impl[:400], 'model': mo[:400]}
        return CaseResult(mm, [], ('format', case['tpl'], tuple(sorted(case['tbl'].items())), case['mode']), ['kind:format', 'mode:' + case['mode']])
    # the module-level default templates of the source must be the ones the theorems are about
    hits = []
    dflt = showparts(bmod.default_header_template.template_parts) + ' ' + showparts(bmod.default_footer_template.template_parts)
    mdflt = model.ask('bounce default')
    mismatch = None
    if dflt != mdflt:
        mismatch = {'op': 'bounce default', 'what': 'the default bounce templates of slimta/bounce are not the ones of Model/Bounce.lean', 'impl': dflt[:600], 'model': mdflt[:600]}
    orig = bytes.fromhex(case['orig'])
    env = Envelope(case['sender'], list(case['rcpts']))
    env.parse(orig)
    if case['client'] is not None:
        env.client = dict(case['client'])
    env.receiver = 'receiver.example'
    addr = tuple(case['address']) if isinstance(case['address'], list) else case['address']
    reply = Reply(case['code'], case['message'], address=addr)
    tpl = case['tpl']
    captured = []

    class Tapped(Bounce):
        # the bytes handed to Envelope.parse are what Model/Bounce.lean's `payload` is; what the email package makes of a header
        # block that is not well formed (custom templates) is outside the model (C20)
        if tpl:
            header_template = tpl[0].encode('ascii', 'replace') if tpl[2] else tpl[0].encode('ascii', 'replace').decode('ascii')
            footer_template = tpl[1].encode('ascii', 'replace') if tpl[2] else tpl[1].encode('ascii', 'replace').decode('ascii')

        def parse(self, data):
            captured.append(data)
            return Bounce.parse(self, data)
    cls = Tapped

    class FixedUuid(object):
        class _U(object):
            hex = '0123456789abcdef0123456789abcdef'

        def uuid4(self):
            return self._U()
    saved = bmod.uuid
    bmod.uuid = FixedUuid()
    try:
        oh, ob = env.flatten()
        b = cls(env, reply, headers_only=case['headers_only'])
        try:
            bh, bb = b.flatten()
        except Exception:
            if not tpl:
                raise
            bh = bb = None      # the email package gave up on a custom header block
    finally:
        bmod.uuid = saved
    import re
    th = tf = '-'
    if tpl:
        th = _bx(re.sub(br'\r?\n', b'\r\n', tpl[0].encode('ascii', 'replace')))
        tf = _bx(re.sub(br'\r?\n', b'\r\n', tpl[1].encode('ascii', 'replace')))
    client = '-'
    if case['client']:
        client = '%s:%s' % (_bx(case['client'].get('name', 'unknown').encode()), _bx(case['client'].get('ip', 'unknown').encode()))
    host = '-'
    if addr:
        host = _bx((addr if isinstance(addr, str) else addr[0]).encode('utf-8'))
    cl = case['client'] or {}
    line = 'bounce build %s %s %s %s %s %s %s %s %s %s %s %s %d %s %s' % (
        th, tf, _bx(case['sender'].encode('utf-8')), (','.join(_bx(r.encode('ascii')) for r in case['rcpts']) or '-'), client, host,      # (the model renders the list: Bounce.joinRcpts)
        _bx(case['code'].encode()), _bx(reply.message.encode('utf-8')), _bx(cl.get('name', 'unknown').encode()), _bx(cl.get('ip', 'unknown').encode()),
        _bx(cl.get('protocol', 'unknown').encode()), _bx(b'boundary_=0123456789abcdef0123456789abcdef'), 1 if case['headers_only'] else 0, _bx(oh), _bx(ob))
    mo = model.ask(line).split(' ')
    if mismatch is None and (len(mo) < 3 or len(captured) != 1 or mo[2] != _bx(captured[0])):
        mismatch = {'op': 'bounce build', 'what': 'the bytes of the bounce message (handed to Envelope.parse)', 'impl': _bx(captured[0] if captured else b'')[:900],
                    'model': (mo[2] if len(mo) > 2 else ' '.join(mo))[:900], 'case': line[:300]}
    if mismatch is None and not tpl and mo[1] != _bx(bb):
        mismatch = {'op': 'bounce build', 'what': 'message data of the bounce', 'impl': _bx(bb)[:600], 'model': mo[1][:600], 'case': line[:300]}
    if mismatch is None and not tpl and case['sender'].isascii() and mo[0] != _bx(bh):
        # (a non-ASCII address in To: is re-encoded by the email package: C20's well-formed domain ends there)
        mismatch = {'op': 'bounce build', 'what': 'header data of the bounce', 'impl': _bx(bh)[:600], 'model': mo[0][:600], 'case': line[:300]}
    # the property, on the implementation alone
    problems = []
    if b.sender != '' or b.recipients != [case['sender']]:
        problems.append('not addressed to the original sender only / sender not null: %r %r' % (b.sender, b.recipients))
    if not tpl:
        want = oh + (b'' if case['headers_only'] else ob)
        if want not in bb:
            problems.append('original header block / body not embedded unchanged')
        if (case['code'] + ' ' + reply.message).encode('utf-8') not in bb:
            problems.append('reply not quoted')
        if case['headers_only'] and ob and (oh + ob) in bb:
            problems.append('body embedded although headers-only')
        for r in case['rcpts']:
            if r.encode('ascii') not in bb:
                problems.append('recipient %s not named' % r)
    if problems:
        hits.append(hit('c13.bounce-content', 'bounce message content wrong', observed=problems))
    tags = ['kind:content', 'headers-only' if case['headers_only'] else 'full', 'custom-template' if tpl else 'default-template',
            'client:' + ('none' if not case['client'] else ','.join(sorted(case['client']))), 'address:' + type(addr).__name__]
    key = ('content', case['sender'], tuple(case['rcpts']), str(case['client']), case['code'], case['message'], str(addr), case['orig'], case['headers_only'], str(tpl))
    return CaseResult(mismatch, hits, key, tags)


_cases_before_content = cases


def cases(tier, seed, phase):          # noqa: F811
    for c in _cases_before_content(tier, seed, phase):
        yield c
    for c in content_cases(tier, seed):
        yield c


_run_before_content = run_case


def run_case(case, model):          # noqa: F811
    if case.get('kind') in ('content', 'format'):
        return run_content(case, model)
    return _run_before_content(case, model)
