"""C19 — relay connection pools stay within bounds and strand no request.

Implementation: the real RelayPool (StaticSmtpRelay + SmtpRelayClient against scripted, gated SMTP peers on socketpairs;
HttpRelay + HttpRelayClient against a gated loopback HTTP peer) and the real BlockingDeque. Every atomic section of the pool
(attempt, poll, wake-up, idle expiry, result set, re-queue, link callback) is logged as a label of the transition system
of Model/Pool.lean by wrapping instance attributes (no change to /repo); the Lean driver replays the observed trace: each
label must be enabled in the model and the model state must equal the real one at every observation point.
"""
import itertools
import re

from harness.core import CaseResult, hit, rng_for

RULE = ('kind=pool: schedules over {attempt k, release the held end-of-data reply of k, wait out the idle timeout, settle} for 1..6 requests x '
        'pool size {1,2,3,unbounded} x idle timeout {none, finite} x transport {smtp, http} x per-request downstream behaviour {accept, hold then '
        'accept, all recipients refused, one recipient refused and the message deferred (mixed kinds), message refused 5xx/4xx, connection dropped in the transaction, stall until the command timeout, '
        'server-side timeout (421 + close) after the message} x per-connection behaviour {normal, refused, closed right after the handshake}; '
        'all orders for <= 3 requests at quick, seeded beyond. kind=deque: random operation sequences over the 8 BlockingDeque methods. '
        'distinct = distinct case descriptor; non-trivial = at least 2 requests or a non-accept behaviour (pool), >= 3 operations (deque).')
BUDGET_S = {'quick': 170, 'thorough': 1500}

IDLE = 0.25
CT = 0.15
REQUEUE_FRESH = 0          # the model parameter: may a connection that has delivered nothing put its request back?

BEHAV = ['ok', 'ok', 'hold', 'hold', 'rcptfail', 'eodfail', 'eodtemp', 'mixedfail', 'mixedfail', 'dropmail', 'stall', 'then421', 'thenclose']


def gen_pool_case(rng, transport=None, nreq=None):
    transport = transport or rng.choice(['smtp', 'smtp', 'smtp', 'http'])
    n = nreq or rng.choice([1, 2, 2, 3, 3, 4, 5, 6])
    size = rng.choice([1, 1, 2, 2, 3, 0])
    idle = rng.choice([True, True, False])
    beh = {}
    for k in range(n):
        b = rng.choice(BEHAV)
        if transport == 'http' and b in ('rcptfail', 'eodtemp', 'then421', 'mixedfail'):
            b = {'rcptfail': 'eodfail', 'eodtemp': 'eodfail', 'then421': 'thenclose', 'mixedfail': 'eodfail'}[b]
        beh[str(k)] = b
    conn = {}
    if rng.random() < 0.2:
        conn[rng.choice(['0', '1', '2', '*'])] = rng.choice(['refuse', 'closeafterhello'])
    # schedule: interleave attempts, releases of held requests, idle waits
    todo = [('attempt', k) for k in range(n)]
    sched = []
    held = []
    while todo or held:
        r = rng.random()
        if todo and (r < 0.55 or not held):
            a = todo.pop(0)
            sched.append(list(a))
            if beh[str(a[1])] == 'hold':
                held.append(a[1])
            if rng.random() < 0.5:
                sched.append(['settle'])
        elif held and r < 0.9:
            sched.append(['release', held.pop(rng.randrange(len(held)))])
            sched.append(['settle'])
        else:
            sched.append(['sleep'])
    if rng.random() < 0.4:
        sched.append(['sleep'])
    return {'kind': 'pool', 'transport': transport, 'size': size, 'idle': idle, 'pipelining': rng.random() < 0.7,
            'beh': beh, 'conn': conn, 'sched': sched, 'n': n}


def cases(tier, seed, phase):
    # deque
    for j in range(300 if tier == 'quick' else 6000):
        def mk(j=j):
            rng = rng_for(seed, 'c19d', j)
            ops = []
            for _ in range(rng.randint(3, 25)):
                o = rng.choice(['a', 'a', 'al', 'e', 'el', 'p', 'pl', 'p', 'pl', 'r', 'c'])
                if o in ('a', 'al', 'r'):
                    ops.append(o + str(rng.randrange(6)))
                elif o in ('e', 'el'):
                    ops.append(o + '.'.join(str(rng.randrange(6)) for _ in range(rng.randrange(4))))
                else:
                    ops.append(o)
            return {'kind': 'deque', 'ops': ops}
        yield mk
    # pool: structured small cases first: every pair of behaviours for 2 requests, sizes 1 and 2, both idle modes
    idx = 0
    for size in (1, 2):
        for idle in (True, False):
            for b0, b1 in itertools.product(['ok', 'hold', 'rcptfail', 'mixedfail', 'dropmail', 'then421', 'thenclose', 'stall'], repeat=2):
                idx += 1
                if tier == 'quick' and idx % 2 and b0 != 'hold':
                    continue
                sched = [['attempt', 0], ['settle'], ['attempt', 1], ['settle']]
                if b0 == 'hold':
                    sched = [['attempt', 0], ['settle'], ['attempt', 1], ['settle'], ['release', 0], ['settle']]
                if b1 == 'hold':
                    sched += [['release', 1], ['settle']]
                sched.append(['sleep'])
                yield {'kind': 'pool', 'transport': 'smtp', 'size': size, 'idle': idle, 'pipelining': True, 'beh': {'0': b0, '1': b1},
                       'conn': {}, 'sched': sched, 'n': 2}
    for ck in ('0', '1', '*'):
        for cb in ('refuse', 'closeafterhello'):
            for idle in (True, False):
                yield {'kind': 'pool', 'transport': 'smtp', 'size': 1, 'idle': idle, 'pipelining': True, 'beh': {'0': 'ok', '1': 'ok'},
                       'conn': {ck: cb}, 'sched': [['attempt', 0], ['settle'], ['attempt', 1], ['settle'], ['sleep']], 'n': 2}
    for j in range(900 if tier == "quick" else 8000):
        def mk(j=j):
            return gen_pool_case(rng_for(seed, 'c19p', j))
        yield mk


# ---------------------------------------------------------------------------------------------------------------------
# deque

def run_deque(case, model):
    from slimta.util.deque import BlockingDeque
    d = BlockingDeque()
    outs = []
    for op in case['ops']:
        try:
            if op.startswith('al'):
                d.appendleft(int(op[2:])); outs.append('u')
            elif op.startswith('el'):
                d.extendleft([int(x) for x in op[2:].split('.') if x]); outs.append('u')
            elif op.startswith('a'):
                d.append(int(op[1:])); outs.append('u')
            elif op.startswith('e'):
                d.extend([int(x) for x in op[1:].split('.') if x]); outs.append('u')
            elif op in ('p', 'pl'):
                if d.sema.locked():
                    outs.append('block')          # the call would wait: not made
                else:
                    outs.append('v%d' % (d.pop() if op == 'p' else d.popleft()))
            elif op.startswith('r'):
                x = int(op[1:])
                if x in d and d.sema.locked():
                    outs.append('block')
                    list.remove  # noqa  (not executed: it would wait forever)
                else:
                    d.remove(x); outs.append('u')
            elif op == 'c':
                d.clear(); outs.append('u')
        except IndexError:
            outs.append('IndexError')
        except ValueError:
            outs.append('ValueError')
    impl = '%s items=%s sema=%d' % (','.join(outs), ','.join(map(str, d)) or '-', d.sema.counter)
    m = model.ask('pool deque %s' % ','.join(case['ops']))
    mismatch = None if m == impl else {'op': 'pool deque', 'impl': impl, 'model': m}
    hits = []
    if d.sema.counter != len(d):
        hits.append(hit('c19.deque.semaphore-differs-from-length', 'BlockingDeque semaphore count differs from its length',
                        observed={'sema': d.sema.counter, 'len': len(d)}))
    if 'IndexError' in outs:
        hits.append(hit('c19.deque.pop-from-empty-behind-semaphore', 'a pop passed the semaphore and found the deque empty', observed=outs))
    return CaseResult(mismatch, hits, ('deque', tuple(case['ops'])) if len(case['ops']) >= 3 else None,
                      ['deque', 'blocked' if 'block' in outs else 'no-block'])


# ---------------------------------------------------------------------------------------------------------------------
# pool

class Tracker(object):
    def __init__(self, relay, reuse):
        import gevent
        self.gevent = gevent
        self.relay = relay
        self.reuse = reuse
        self.order = []            # clients in the pool, creation order (the model's indices)
        self.phase = {}            # shadow: R / I / B / X per client
        self.labels = []           # labels since the last observation
        self.chunks = []           # [(labels, snapshot)]
        self.results = {}          # rid -> AsyncResult
        self.anomalies = []
        self.nlabels = 0
        self.maxpool = 0
        self.persistent = False

    def log(self, l, cl=None):
        if cl is not None:
            l = '%s%d' % (l, self.order.index(cl))
        self.labels.append(l)
        self.nlabels += 1

    def snapshot(self):
        cl = '.'.join('I' if c.idle else 'N' for c in self.order) or '-'
        q = ','.join(str(env.rid) for _, env in self.relay.queue) or '-'
        r = ','.join(str(k) for k in sorted(k for k, res in self.results.items() if res.ready())) or '-'
        return 'c=%s q=%s r=%s' % (cl, q, r)

    def observe(self):
        self.chunks.append((self.labels, self.snapshot()))
        self.labels = []
        if set(self.order) != set(self.relay.pool):
            self.anomalies.append('pool-set-differs-from-tracked-clients')
        self.maxpool = max(self.maxpool, len(self.relay.pool))

    def install(self):
        relay = self.relay
        tr = self
        gevent = self.gevent
        orig_add_client = relay.add_client
        orig_remove = relay._remove_client
        q = relay.queue
        orig_append, orig_appendleft = q.append, q.appendleft

        def add_client():
            cl = orig_add_client()
            tr.order.append(cl)
            tr.phase[cl] = 'R'
            orig_poll = cl.poll

            def poll():
                was_empty = len(q) == 0
                tr.log('p', cl)
                tr.phase[cl] = 'I' if was_empty else 'B'
                res = orig_poll()
                if was_empty:
                    if res[0] is not None:
                        tr.log('w', cl)
                        tr.phase[cl] = 'B'
                    else:
                        tr.log('x', cl)
                        tr.phase[cl] = 'R' if tr.persistent else 'X'
                return res
            cl.poll = poll
            return cl

        def remove_client(cl):
            ph = tr.phase.get(cl)
            if ph == 'R':
                tr.log('d', cl)
            elif ph in ('B', 'I'):
                tr.anomalies.append('client-ended-in-phase-' + ph)
                tr.log('LEAK', cl)
            tr.log('u', cl)
            try:
                orig_remove(cl)
            finally:
                tr.order.remove(cl)
                tr.maxpool = max(tr.maxpool, len(relay.pool))

        def append(item):
            result, env = item
            tr.results[env.rid] = result
            result.tracker = tr
            return orig_append(item)

        def appendleft(item):
            cur = gevent.getcurrent()
            if cur in tr.order:
                tr.log('q', cur)
                tr.phase[cur] = 'X'
            else:
                tr.anomalies.append('requeue-from-outside-a-client')
            return orig_appendleft(item)
        relay.add_client = add_client
        relay._remove_client = remove_client
        q.append = append
        q.appendleft = appendleft

    def result_set(self, result):
        cur = self.gevent.getcurrent()
        if result.ready():
            self.anomalies.append('result-set-twice')
            return
        if cur in self.order:
            self.log('f', cur)
            self.phase[cur] = 'R' if self.reuse else 'X'
        else:
            self.anomalies.append('result-set-from-outside-a-client')


def _traced_result_class():
    from gevent.event import AsyncResult

    class TracedResult(AsyncResult):
        tracker = None

        def set(self, value=None):
            if self.tracker is not None:
                self.tracker.result_set(self)
            return AsyncResult.set(self, value)

        def set_exception(self, exception, exc_info=None):
            if self.tracker is not None:
                self.tracker.result_set(self)
            return AsyncResult.set_exception(self, exception, exc_info)
    return TracedResult


class SmtpPeers(object):
    """Scripted SMTP server side; one greenlet per connection."""

    def __init__(self, case):
        import gevent
        from gevent.event import Event
        self.gevent = gevent
        self.case = case
        self.created = []          # client-side sockets
        self.nconn = 0
        self.maxopen = 0
        self.gates = {}
        self.Event = Event
        self.violations = []
        self.activity = 0
        self.greenlets = []

    def gate(self, rid):
        if rid not in self.gates:
            self.gates[rid] = self.Event()
        return self.gates[rid]

    def creator(self, address):
        from gevent import socket
        k = self.nconn
        self.nconn += 1
        self.activity += 1
        beh = self.case['conn'].get(str(k), self.case['conn'].get('*', 'normal'))
        if beh == 'refuse' or self.nconn > 60:
            raise ConnectionRefusedError(111, 'refused')
        a, b = socket.socketpair()
        self.created.append(a)
        nopen = sum(1 for s in self.created if s.fileno() != -1)
        self.maxopen = max(self.maxopen, nopen)
        self.greenlets.append(self.gevent.spawn(self.serve, b, k, beh))
        return a

    def serve(self, sock, k, beh):
        try:
            self._serve(sock, k, beh)
        except (OSError, EOFError):
            pass
        finally:
            try:
                sock.close()
            except OSError:
                pass

    def _serve(self, sock, k, beh):
        f = sock.makefile('rb')
        send = sock.sendall
        send(b'220 peer ready\r\n')
        in_txn = False         # a transaction is open (MAIL seen, not completed / reset)
        rid = None
        rcpt_ok = 0
        nrcpt = 0
        while True:
            line = f.readline()
            self.activity += 1
            if not line:
                return
            u = line.strip().upper()
            if u.startswith(b'EHLO') or u.startswith(b'LHLO'):
                send(b'250-peer\r\n' + (b'250-PIPELINING\r\n' if self.case['pipelining'] else b'') + b'250 8BITMIME\r\n')
                if beh == 'closeafterhello':
                    return
            elif u.startswith(b'MAIL'):
                m = re.search(rb'<s(\d+)@', line)
                if in_txn:
                    self.violations.append(('mail-inside-open-transaction', k, rid, line.decode('latin-1')))
                rid = int(m.group(1)) if m else -1
                in_txn = True
                rcpt_ok = 0
                nrcpt = 0
                b = self.case['beh'].get(str(rid), 'ok')
                if b == 'dropmail':
                    return
                if b == 'stall':
                    self.gevent.sleep(30)
                    return
                send(('250 2.1.0 sender s%d ok\r\n' % rid).encode())
            elif u.startswith(b'RCPT'):
                b = self.case['beh'].get(str(rid), 'ok')
                if b == 'rcptfail' or (b == 'mixedfail' and nrcpt == 0):
                    nrcpt += 1
                    send(('550 5.1.1 no such user for s%d\r\n' % rid).encode())
                else:
                    nrcpt += 1
                    rcpt_ok += 1
                    send(('250 2.1.5 rcpt for s%d ok\r\n' % rid).encode())
            elif u.startswith(b'DATA'):
                if rcpt_ok == 0:
                    send(('554 5.5.1 no valid recipients s%d\r\n' % rid).encode())
                    continue
                if self.case['beh'].get(str(rid), 'ok') == 'mixedfail':
                    # one recipient was refused for good, now the message is refused for the moment: a failure of mixed kinds
                    send(('451 4.3.0 not now s%d\r\n' % rid).encode())
                    continue
                send(b'354 go ahead\r\n')
                while True:
                    l = f.readline()
                    if not l:
                        return
                    if l in (b'.\r\n', b'.\n'):
                        break
                b = self.case['beh'].get(str(rid), 'ok')
                if b == 'hold':
                    self.gate(rid).wait()
                self.activity += 1
                if b == 'eodfail':
                    send(('550 5.6.0 refused s%d\r\n' % rid).encode())
                    # the transaction failed: the client is expected to reset before the next one
                elif b == 'eodtemp':
                    send(('451 4.3.0 try later s%d\r\n' % rid).encode())
                else:
                    send(('250 2.0.0 queued s%d\r\n' % rid).encode())
                    in_txn = False
                if b == 'then421':
                    send(b'421 4.4.2 idle too long\r\n')
                    return
                if b == 'thenclose':
                    return
            elif u.startswith(b'RSET'):
                in_txn = False
                send(b'250 2.0.0 reset\r\n')
            elif u.startswith(b'QUIT'):
                send(b'221 2.0.0 bye\r\n')
                return
            else:
                send(b'500 5.5.2 what\r\n')


class HttpPeers(object):
    def __init__(self, case):
        import gevent
        from gevent.event import Event
        from gevent.server import StreamServer
        self.gevent = gevent
        self.case = case
        self.Event = Event
        self.gates = {}
        self.nconn = 0
        self.open = 0
        self.maxopen = 0
        self.activity = 0
        self.violations = []
        self.srv = StreamServer(('127.0.0.1', 0), self.handle)
        self.srv.start()
        self.port = self.srv.socket.getsockname()[1]

    def gate(self, rid):
        if rid not in self.gates:
            self.gates[rid] = self.Event()
        return self.gates[rid]

    def handle(self, sock, addr):
        import base64
        k = self.nconn
        self.nconn += 1
        self.open += 1
        # open connections as the clients see them (the server side notices a close late)
        nopen = sum(1 for c in self.tracker.order if c.conn is not None and getattr(c.conn, 'sock', None) is not None)
        self.maxopen = max(self.maxopen, nopen)
        beh = self.case['conn'].get(str(k), self.case['conn'].get('*', 'normal'))
        try:
            if beh in ('refuse', 'closeafterhello'):
                return
            f = sock.makefile('rb')
            while True:
                length, rid = 0, -1
                first = f.readline()
                self.activity += 1
                if not first:
                    return
                while True:
                    l = f.readline()
                    if not l or l in (b'\r\n', b'\n'):
                        break
                    if l.lower().startswith(b'content-length:'):
                        length = int(l.split(b':')[1])
                    if l.lower().startswith(b'x-envelope-sender:'):
                        snd = base64.b64decode(l.split(b':', 1)[1].strip()).decode()
                        m = re.match(r's(\d+)@', snd)
                        rid = int(m.group(1)) if m else -1
                f.read(length)
                b = self.case['beh'].get(str(rid), 'ok')
                if b == 'dropmail':
                    return
                if b == 'stall':
                    self.gevent.sleep(30)
                    return
                if b == 'hold':
                    self.gate(rid).wait()
                self.activity += 1
                close = b in ('thenclose', 'then421')
                if b == 'eodfail':
                    status, hdr = 500, 'X-Smtp-Reply: 550; message="5.6.0 refused s%d"\r\n' % rid
                else:
                    status, hdr = 200, 'X-Smtp-Reply: 250; message="2.0.0 queued s%d"\r\n' % rid
                sock.sendall(('HTTP/1.1 %d Status\r\nContent-Length: 0\r\n%s%s\r\n' % (
                    status, hdr, 'Connection: close\r\n' if close else '')).encode())
                if close:
                    return
        except OSError:
            pass
        finally:
            self.open -= 1
            try:
                sock.close()
            except OSError:
                pass


def outcome_text(box):
    if 'exc' in box:
        e = box['exc']
        rep = getattr(e, 'reply', None)
        return 'exc:%s:%s' % (type(e).__name__, (str(rep) if rep is not None else str(e)))
    ret = box.get('ret')
    try:
        if hasattr(ret, 'items'):
            parts = []
            for k, v in ret.items():
                rep = getattr(v, 'reply', v)
                parts.append('%s=%s' % (k, str(rep)))
            return 'ret:' + ';'.join(parts)
    except Exception:
        pass
    return 'ret:' + str(ret)


def run_pool(case, model):
    import gevent
    import slimta.relay.pool as poolmod
    from slimta.envelope import Envelope
    from slimta.relay import RelayError
    try:
        gevent.get_hub().exception_stream = None
    except Exception:
        pass
    reuse = bool(case['idle'])
    saved = poolmod.AsyncResult
    poolmod.AsyncResult = _traced_result_class()
    hits = []
    try:
        if case['transport'] == 'smtp':
            from slimta.relay.smtp.static import StaticSmtpRelay
            peers = SmtpPeers(case)
            relay = StaticSmtpRelay('peer.example', 25, pool_size=case['size'] or None, socket_creator=peers.creator, ehlo_as='c19',
                                    idle_timeout=IDLE if reuse else None, command_timeout=CT, data_timeout=CT * 20, connect_timeout=CT)
        else:
            from slimta.relay.http import HttpRelay
            peers = HttpPeers(case)
            relay = HttpRelay('http://127.0.0.1:%d/deliver' % peers.port, pool_size=case['size'] or None, ehlo_as='c19',
                              timeout=CT * 3, idle_timeout=IDLE if reuse else None)
        tr = Tracker(relay, reuse)
        tr.persistent = case['transport'] == 'http'
        peers.tracker = tr
        tr.install()
        attempts = {}

        def settle(maxwait=1.0):
            quiet, last, waited = 0, None, 0.0
            while quiet < 6 and waited < maxwait:
                gevent.sleep(0.005)
                waited += 0.005
                cur = (tr.nlabels, peers.activity)
                quiet = quiet + 1 if cur == last else 0
                last = cur

        def do_attempt(rid):
            env = Envelope('s%d@example.com' % rid, ['r%d-a@example.com' % rid, 'r%d-b@example.com' % rid])
            env.parse(b'Subject: t\r\n\r\nbody of %d\r\n' % rid)
            env.rid = rid
            box = {}

            def go():
                tr.log('a%d' % rid)
                try:
                    box['ret'] = relay.attempt(env, 0)
                except BaseException as e:
                    box['exc'] = e
            attempts[rid] = (gevent.spawn(go), box)

        for act in case['sched']:
            if act[0] == 'attempt':
                do_attempt(act[1])
                gevent.sleep(0)
            elif act[0] == 'release':
                peers.gate(act[1]).set()
                gevent.sleep(0)
            elif act[0] == 'sleep':
                gevent.sleep(IDLE + 0.08)
            elif act[0] == 'settle':
                settle()
            tr.observe()
        for rid in attempts:
            peers.gate(rid).set()
        # everything must finish: stalls end at the command timeout, holds are released
        deadline = 3.0
        waited = 0.0
        while waited < deadline and not all(g.ready() for g, _ in attempts.values()):
            gevent.sleep(0.02)
            waited += 0.02
            if peers.nconn > 60:
                break
        settle(0.5)
        tr.observe()
        unfinished = sorted(rid for rid, (g, _) in attempts.items() if not g.ready())
        # ---- monitors on the implementation
        if case['size'] and max(tr.maxpool, peers.maxopen) > case['size']:
            hits.append(hit('c19.pool-exceeds-size', 'more clients / open connections than pool_size',
                            observed={'clients': tr.maxpool, 'open': peers.maxopen}, expected=case['size']))
        if peers.nconn > 60:
            hits.append(hit('c19.attempt-never-returns.reconnect-loop', 'the pool reconnects without end and the attempt never gets a result',
                            observed={'connections': peers.nconn, 'unfinished': unfinished}))
        elif unfinished:
            hits.append(hit('c19.request-stranded', 'an attempt is still waiting after every downstream behaviour has played out',
                            observed={'unfinished': unfinished, 'pool': len(relay.pool), 'queue': len(relay.queue), 'state': tr.snapshot()}))
        if relay.queue.sema.counter != len(relay.queue):
            hits.append(hit('c19.deque.semaphore-differs-from-length', 'BlockingDeque semaphore count differs from its length',
                            observed={'sema': relay.queue.sema.counter, 'len': len(relay.queue)}))
        for rid, (g, box) in attempts.items():
            if not g.ready():
                continue
            text = outcome_text(box)
            others = set(int(x) for x in re.findall(r'\bs(\d+)\b', text)) - {rid}
            if others:
                hits.append(hit('c19.result-of-another-envelope', 'an attempt received a result computed for another envelope',
                                observed={'attempt': rid, 'result': text[:300]}))
            if 'exc' in box and not isinstance(box['exc'], RelayError):
                hits.append(hit('c19.attempt-raised-non-relay-error.' + type(box['exc']).__name__,
                                'attempt() raised something that is not a relay error', observed=text[:300]))
            b = case['beh'].get(str(rid), 'ok')
            if 'ret' in box and b in ('rcptfail', 'eodfail', 'eodtemp', 'dropmail', 'stall', 'mixedfail') and 'queued' in text:
                hits.append(hit('c19.success-for-refused-message', 'success reported for a message the peer refused', observed=text[:300]))
        for v in peers.violations:
            hits.append(hit('c19.connection-reused-without-reset', 'a new MAIL arrived on a connection whose previous transaction was neither '
                            'completed nor reset', observed=v))
            break
        for a in tr.anomalies:
            hits.append(hit('c19.' + a, 'pool bookkeeping anomaly: ' + a, observed=tr.snapshot()))
            break
        # ---- model replay
        chunks = '/'.join(','.join(ls) or '-' for ls, _ in tr.chunks)
        m = model.ask('pool run %d %d %d %d %s' % (case['size'], 1 if reuse else 0, REQUEUE_FRESH, 1 if case['transport'] == 'http' else 0, chunks))
        mstates = m.split(' / ')
        mismatch = None

        def canon_model(s):
            # c=R0.I1.B3:1.X q=.. r=..  -> idle flags only
            mm = re.match(r'c=(\S+) q=(\S+) r=(\S+)$', s)
            if not mm:
                return s
            cl = '-' if mm.group(1) == '-' else '.'.join('I' if x.startswith('I') else 'N' for x in mm.group(1).split('.'))
            return 'c=%s q=%s r=%s' % (cl, mm.group(2), mm.group(3))
        for i, (ls, snap) in enumerate(tr.chunks):
            ms = canon_model(mstates[i]) if i < len(mstates) else 'missing'
            if ms != snap:
                mismatch = {'op': 'pool run', 'chunk': i, 'labels': ','.join(ls)[:400], 'impl': snap, 'model': mstates[i] if i < len(mstates) else 'missing',
                            'trace': chunks[:1500]}
                break
        nl = sum(len(ls) for ls, _ in tr.chunks)
        tags = ['pool-' + case['transport'], 'size=%d' % case['size'], 'reuse' if reuse else 'no-reuse', 'labels<=10' if nl <= 10 else 'labels>10']
        for l in 'awxqdu':
            if any(x.startswith(l) for ls, _ in tr.chunks for x in ls):
                tags.append('label:' + l)
        nontrivial = case['n'] >= 2 or any(b != 'ok' for b in case['beh'].values())
        key = ('pool', case['transport'], case['size'], case['idle'], case['pipelining'], tuple(sorted(case['beh'].items())),
               tuple(sorted(case['conn'].items())), tuple(map(tuple, case['sched'])))
        return CaseResult(mismatch, hits, key if nontrivial else None, tags)
    finally:
        poolmod.AsyncResult = saved
        try:
            for g in getattr(peers, 'greenlets', []):
                g.kill(block=False)
            for c in list(relay.pool):
                c.kill(block=False)
            if case['transport'] == 'http':
                peers.srv.stop()
            for s in getattr(peers, 'created', []):
                try:
                    s.close()
                except OSError:
                    pass
            for rid, (g, _) in list(locals().get('attempts', {}).items()):
                g.kill(block=False)
        except Exception:
            pass


def run_case(case, model):
    if case['kind'] == 'deque':
        return run_deque(case, model)
    return run_pool(case, model)
