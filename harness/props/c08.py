"""C08 — nothing crosses the STARTTLS boundary; AUTH only when permitted.

Implementation: real slimta.smtp.server.Server and slimta.smtp.client.Client over scripted sockets with a stand-in
TLS layer (what wrap_socket returns is a new scripted stream; bytes already received stay where the code keeps them,
bytes still in flight are not part of the TLS channel), plus a few runs over real TLS on a socketpair.
Model: `server run` of the Lean driver (Model/Server.lean: STARTTLS switch-over, AUTH gating and exchange).
"""
import base64
import itertools

from harness.core import CaseResult, hit, rng_for
from harness import serverdrv as sd
from harness.fakes.sock import ScriptSocket, WouldBlock

RULE = ('kind=srv-tls: session prefixes before STARTTLS (none / EHLO / open transaction with sender / with recipient) x byte '
        'strings pipelined behind the STARTTLS line in the same read (whole commands, half a command, a forged '
        'transaction, nothing) x command scripts sent over the TLS channel; kind=srv-auth: AUTH mechanisms x argument '
        'shapes (initial response, challenge, cancel, bad base64, empty, unknown mechanism, Unicode credentials) x TLS / '
        'no TLS / immediate TLS x position (before EHLO, after success, inside a transaction) x application verdict; '
        'kind=cli-tls: client STARTTLS with forged replies injected in clear text behind the 220. distinct = distinct '
        'case descriptor; non-trivial = every case.')
BUDGET_S = {'quick': 160, 'thorough': 1500}

PREFIXES = [[], [b'EHLO a'], [b'EHLO a', b'MAIL FROM:<s@x>'], [b'EHLO a', b'MAIL FROM:<s@x>', b'RCPT TO:<r@y>'], [b'HELO a']]
INJECT = [b'', b'NOOP\r\n', b'RCPT TO:<victim@y>\r\n', b'MAIL FROM:<evil@x>\r\nRCPT TO:<victim@y>\r\n', b'DATA\r\nhello\r\n.\r\n', b'MAIL FR',
          b'EHLO evil\r\n', b'QUIT\r\n', b'\r\n']
TLS_SCRIPTS = [
    [b'NOOP'], [b'RCPT TO:<r@y>'], [b'DATA'], [b'MAIL FROM:<s2@x>'], [b'EHLO b', b'MAIL FROM:<s2@x>', b'RCPT TO:<r@y>', b'DATA', b'BODY', b'QUIT'],
    [b'STARTTLS'], [b'EHLO b', b'STARTTLS'], [b'EHLO b', b'AUTH PLAIN AHVzZXIAcGFzcw==', b'NOOP'], [],
    [b'OM:<s3@x>', b'NOOP'],
]
CREDS = [('user', 'pass', ''), ('usér', 'päss wörd', 'zid'), ('u', 'x' * 40, 'u')]


def b64(x):
    return base64.b64encode(x)


def plain_blob(c):
    return ('%s\0%s\0%s' % (c[2], c[0], c[1])).encode('utf-8')


def auth_shapes():
    out = []
    for c in CREDS:
        out.append(('plain-initial', [b'AUTH PLAIN ' + b64(plain_blob(c))], c))
        out.append(('plain-challenge', [b'AUTH PLAIN', b64(plain_blob(c))], c))
        out.append(('login', [b'AUTH LOGIN', b64(c[0].encode()), b64(c[1].encode())], (c[0], c[1], '')))
        out.append(('login-initial', [b'AUTH LOGIN ' + b64(c[0].encode()), b64(c[1].encode())], (c[0], c[1], '')))
    out += [
        ('bare', [b'AUTH'], None), ('unknown-mech', [b'AUTH BOGUS abc'], None), ('bad-base64', [b'AUTH PLAIN !!!!'], None),
        ('bad-base64-challenge', [b'AUTH PLAIN', b'!!!!'], None), ('cancel', [b'AUTH PLAIN', b'*'], None),
        ('cancel-login', [b'AUTH LOGIN', b64(b'user'), b'*'], None), ('empty-response', [b'AUTH PLAIN', b''], None),
        ('garbage-arg', [b'AUTH PLAIN=x'], None), ('wrong-format', [b'AUTH PLAIN ' + b64(b'no-nul-here')], None),
        ('lowercase', [b'auth plain ' + b64(plain_blob(CREDS[0]))], CREDS[0]),
        # valid base64 of bytes that are not UTF-8: malformed credentials, an error reply, the session goes on
        ('plain-nonutf8', [b'AUTH PLAIN ' + b64(b'\x00us\xff\x00pw')], None), ('plain-challenge-nonutf8', [b'AUTH PLAIN', b64(b'\x00\xfe\xff\x00pw')], None),
        ('login-nonutf8-user', [b'AUTH LOGIN', b64(b'\xff\xfe'), b64(b'pw')], None), ('login-nonutf8-pass', [b'AUTH LOGIN ' + b64(b'user'), b64(b'p\xc3')], None),
    ]
    return out


def build(lines):
    return b''.join(sd_body(l) for l in lines)


def sd_body(l):
    return b'Subject: hi\r\n\r\nbody\r\n.\r\n' if l == b'BODY' else l + b'\r\n'


def cases(tier, seed, phase):
    for pi, ii, ti in itertools.product(range(len(PREFIXES)), range(len(INJECT)), range(len(TLS_SCRIPTS))):
        yield {'kind': 'srv-tls', 'prefix': pi, 'inject': ii, 'tls': ti}
    shapes = auth_shapes()
    for si in range(len(shapes)):
        for tls in ('none', 'starttls', 'immediate'):
            for pos in ('normal', 'before-ehlo', 'after-success', 'in-transaction', 'after-cancel-login', 'after-bad-b64-login', 'after-cancel-plain'):
                for verdict in (None, 535):
                    yield {'kind': 'srv-auth', 'shape': si, 'tls': tls, 'pos': pos, 'verdict': verdict}
    for inj in (b'', b'250-injected.example\r\n250 AUTH PLAIN LOGIN\r\n', b'250 ok\r\n', b'5', b'250-half'):
        for cut_inside in (False, True):
            yield {'kind': 'cli-tls', 'inject': inj.hex(), 'split': cut_inside}
    if tier == 'thorough':
        for j in range(4000):
            rng = rng_for(seed, 'c08r', j)
            yield {'kind': 'srv-tls', 'prefix': rng.randrange(len(PREFIXES)), 'inject': rng.randrange(len(INJECT)),
                   'tls': rng.randrange(len(TLS_SCRIPTS)), 'verdict_pos': rng.randrange(12), 'verdict': rng.choice([450, 550, 421])}
    for j in range(6 if tier == 'quick' else 40):
        yield {'kind': 'real-tls', 'inject': j % len(INJECT), 'prefix': (j // 2) % len(PREFIXES)}


def post_tls(events):
    if 'cTLS' not in events:
        return None
    return events[events.index('cTLS'):]


def run_srv_tls(case, model):
    cfg = {'starttls': True, 'auth': True, 'maxsize': None}
    pre = build(PREFIXES[case['prefix']])
    inj = INJECT[case['inject']]
    tls = build(TLS_SCRIPTS[case['tls']])
    verd = [None] * 16
    if case.get('verdict'):
        verd[case['verdict_pos']] = case['verdict']
    clear = pre + b'STARTTLS\r\n' + inj
    res = sd.run_server(cfg, verd, b'', [clear], [[tls] if tls else []])
    ref = sd.run_server(cfg, verd, b'', [pre + b'STARTTLS\r\n'], [[tls] if tls else []])
    m = model.ask(sd.model_request(cfg, verd, b'', [clear], [[tls] if tls else []], sd.candidate_lines(clear + tls)))
    canon = '%s | %s | %s' % (' '.join(res['events']) or '-', res['ending'], res['state'])
    mp = m.split(' | ')
    mc = '%s | %s | %s' % (mp[0], mp[1], ' '.join(x for x in mp[2].split(' ') if not x.startswith(('env=', 'rest=')))) if len(mp) == 3 else m
    mismatch = {'op': 'server run', 'impl': canon, 'model': mc, 'exc': res.get('exc')} if canon != mc else None
    hits = []
    a, b = post_tls(res['events']), post_tls(ref['events'])
    if a is not None and b is not None and (a != b or res['state'] != ref['state']):
        hits.append(hit('c08.server-executes-cleartext-after-handshake',
                        'bytes received in clear text before the handshake changed what the server did after it',
                        observed={'with_injection': a, 'state': res['state']}, expected={'without': b, 'state': ref['state']}))
    if a is not None:
        # just-greeted state: a transaction command right after the handshake must be refused without callback
        k = res['events'].index('cTLS')
        first = TLS_SCRIPTS[case['tls']][:1]
        if first and first[0].split(b' ')[0] in (b'RCPT', b'DATA', b'MAIL') and not inj:
            nxt = res['events'][k + 1:k + 2]
            if nxt and nxt[0].startswith('c'):
                hits.append(hit('c08.transaction-survives-handshake', 'a mail transaction command was accepted right after the handshake',
                                observed=res['events'][k:k + 3]))
        if b'250-STARTTLS' in res['sent'].split(b'220 2.7.0 Go ahead')[-1] or b'250 STARTTLS' in res['sent'].split(b'220 2.7.0 Go ahead')[-1]:
            hits.append(hit('c08.starttls-still-offered', 'STARTTLS is advertised again after the handshake'))
    return mismatch, hits, ['prefix%d' % case['prefix'], 'inject%d' % case['inject'], 'handshake' if a is not None else 'no-handshake']


def run_srv_auth(case, model):
    name, lines, creds = auth_shapes()[case['shape']]
    tls = case['tls']
    cfg = {'starttls': tls == 'starttls', 'auth': True, 'maxsize': None, 'immediate': tls == 'immediate'}
    pos = case['pos']
    ok_auth = [b'AUTH PLAIN ' + b64(plain_blob(CREDS[0]))]
    script = []
    if pos != 'before-ehlo':
        script.append(b'EHLO a')
    if pos == 'after-success':
        script += ok_auth
    if pos == 'in-transaction':
        script.append(b'MAIL FROM:<s@x>')
    # an exchange that was given a user name and then aborted must leave nothing behind for the next one
    if pos == 'after-cancel-login':
        script += [b'AUTH LOGIN', b64(b'admin'), b'*']
    elif pos == 'after-bad-b64-login':
        script += [b'AUTH LOGIN ' + b64(b'admin'), b'abc']      # not base64 (incorrect padding): 501
    elif pos == 'after-cancel-plain':
        script += [b'AUTH PLAIN', b'*']
    script += lines
    script += [b'NOOP', b'NOOP']
    stream = build(script)
    verd = [None] * 16
    if tls == 'starttls':
        clear = b'EHLO pre\r\nSTARTTLS\r\n'
        streams = [[stream]]
        ncb_before = 4      # banner, ehlo, starttls (+tls has no verdict), ehlo
    else:
        clear = stream
        streams = [[stream]] if tls == 'immediate' else []
        ncb_before = 2
    # the verdict applies to the AUTH callback under test (when it is made)
    if case['verdict']:
        k = ncb_before + (1 if pos == 'after-success' else 0) + (1 if pos == 'in-transaction' else 0) - (1 if pos == 'before-ehlo' else 0)
        verd[k] = case['verdict']
    if tls == 'immediate':
        res = sd.run_server(cfg, verd, b'', [], streams)
        req = sd.model_request(cfg, verd, b'', [stream], [], sd.candidate_lines(stream))
    else:
        res = sd.run_server(cfg, verd, b'', [clear], streams)
        req = sd.model_request(cfg, verd, b'', [clear], streams, sd.candidate_lines(clear + stream))
    m = model.ask(req)
    canon = '%s | %s | %s' % (' '.join(res['events']) or '-', res['ending'], res['state'])
    mp = m.split(' | ')
    mc = '%s | %s | %s' % (mp[0], mp[1], ' '.join(x for x in mp[2].split(' ') if not x.startswith(('env=', 'rest=')))) if len(mp) == 3 else m
    mismatch = {'op': 'server run', 'impl': canon, 'model': mc, 'exc': res.get('exc')} if canon != mc else None
    hits = []
    ev = res['events']
    encrypted = tls != 'none'
    auth_cbs = [e for e in ev if e.startswith('cAUTH')]
    expect_cbs = 1 if pos == 'after-success' and encrypted else 0
    under_test = auth_cbs[expect_cbs:] if pos == 'after-success' else auth_cbs
    if under_test:
        if not encrypted:
            hits.append(hit('c08.plaintext-auth-without-tls', 'a plain-text SASL mechanism was accepted on an unencrypted session', observed=under_test))
        if pos in ('before-ehlo', 'in-transaction') or (pos == 'after-success' and encrypted):
            hits.append(hit('c08.auth-when-not-permitted.' + pos, 'AUTH callback although AUTH is not permitted here', observed=ev))
        if creds is not None:
            want = 'cAUTH:%s:%s:%s' % (sd.hx(creds[0].encode()), sd.hx(creds[1].encode()), sd.hx((creds[2] or creds[0]).encode()))
            if under_test[0] != want:
                hits.append(hit('c08.credentials-differ', 'credentials shown to the application differ from those supplied',
                                observed=under_test[0], expected=want))
    # a malformed AUTH line must not end the session: the trailing NOOPs are answered
    if creds is None and pos == 'normal':
        if res['ending'] == 'aborted' or 'cNOOP' not in ev:
            hits.append(hit('c08.malformed-auth-ends-session', 'a malformed AUTH line ended the session instead of getting an error reply',
                            observed={'events': ev[-5:], 'ending': res['ending'], 'exc': res.get('exc')}))
    # authenticated only after the application accepted
    if case['verdict'] == 535 and pos == 'normal' and 'authed=true' in res['state']:
        hits.append(hit('c08.authed-without-acceptance', 'session marked authenticated although the application refused', observed=res['state']))
    return mismatch, hits, ['auth-' + name.split('-')[0], 'tls=' + tls, 'pos=' + pos]


def run_cli_tls(case, model):
    from slimta.smtp.client import Client
    sd._patch_encrypted()
    inj = bytes.fromhex(case['inject'])
    clear = b'220 banner\r\n' + b'250-srv.example\r\n250-STARTTLS\r\n250 PIPELINING\r\n' + b'220 go ahead\r\n'
    tlsreply = b'250-tls.example\r\n250 SIZE 100\r\n'
    segs = [b'220 banner\r\n', b'250-srv.example\r\n250-STARTTLS\r\n250 PIPELINING\r\n']
    last = b'220 go ahead\r\n' + inj
    segs += [last] if not case['split'] else [last[:5], last[5:]]
    outer = {}
    sock = ScriptSocket(segs)
    ctx = sd.FakeContext([[tlsreply]], outer)
    c = Client(sock, address=('srv.example', 25))
    hits = []
    try:
        c.get_banner()
        c.ehlo('me')
        r = c.starttls(ctx)
        leftover = c.io.recv_buffer
        e2 = c.ehlo('me')
        got = (e2.code, e2.message, sorted(c.extensions.extensions.keys()))
    except WouldBlock:
        got = ('blocked',)
        leftover = c.io.recv_buffer
    except Exception as e:
        got = ('raised', repr(e))
        leftover = b''
    want = ('250', 'tls.example', ['SIZE'])
    if got != want:
        hits.append(hit('c08.client-uses-cleartext-after-handshake',
                        'a reply received in clear text before the handshake was used by the client after it',
                        observed=list(got), expected=list(want)))
    # ---- the client model (Model/Client.lean: run / starttls / run): the replies the four calls hold, and what is left to read
    from harness.core import hx, hxl
    mismatch = None
    m = model.ask('client tls 0 banner,ehlo - %s %s ehlo' % (hxl(segs), hxl([tlsreply])))
    if got[0] == '250':
        mf = m.split(' | ')[0]
        mlast = mf.split(';')[-1].split(':') if mf != '-' else None
        mview = None
        if mlast:
            mview = (bytes.fromhex(mlast[1]).decode(), bytes.fromhex(mlast[2]).decode('utf-8').split('\r\n')[0], len(mf.split(';')))
        iview = (e2.code, e2.message, 4)
        mrest = dict(x.split('=', 1) for x in m.split(' | ')[1].split(' ')).get('rest')
        irest = (c.io.recv_buffer + outer['tls_sock'].unread()).hex() or '-'
        if mview != iview or mrest != irest:
            mismatch = {'op': 'client tls', 'impl': [iview, irest], 'model': [mview, mrest]}
    return mismatch, hits, ['inject=%d' % len(inj), 'split' if case['split'] else 'whole'] + (['client-model-compared'] if got[0] == '250' else [])


def run_real_tls(case, model):
    """The same boundary over real TLS on a socketpair (the pipelined bytes really sit in the receive buffer)."""
    import os
    import gevent
    from gevent import socket as gsocket
    from gevent import ssl as gssl
    from slimta.smtp.server import Server
    from slimta.smtp import ConnectionLost
    here = os.path.join(os.path.dirname(os.path.dirname(os.path.abspath(__file__))), 'fakes')
    cert, key = os.path.join(here, 'cert.pem'), os.path.join(here, 'key.pem')
    if not os.path.exists(cert):
        return None, [], ['no-cert']
    sctx = gssl.SSLContext(gssl.PROTOCOL_TLS_SERVER)
    sctx.load_cert_chain(cert, key)
    cctx = gssl.SSLContext(gssl.PROTOCOL_TLS_CLIENT)
    cctx.check_hostname = False
    cctx.verify_mode = gssl.CERT_NONE
    a, b = gsocket.socketpair()
    events = []
    h = sd.Handler([None] * 16, events)
    srv = Server(a, h, address=('127.0.0.1', 1), auth=False, context=sctx, command_timeout=2.0)
    real_send = srv.io.send_reply

    def send_reply(reply):
        events.append('r' + str(reply.code))
        return real_send(reply)
    srv.io.send_reply = send_reply

    def serve():
        try:
            srv.handle()
        except (ConnectionLost, Exception):
            pass
    g = gevent.spawn(serve)
    pre = build(PREFIXES[case['prefix']])
    inj = INJECT[case['inject']]
    out = {}

    def client():
        try:
            client_body()
        except Exception as e:          # a refused STARTTLS or a failed handshake is an outcome, not a harness error
            out['client_error'] = repr(e)

    def client_body():
        f = b.makefile('rb')
        f.readline()
        b.sendall(pre + b'STARTTLS\r\n' + inj)        # one write: the injected bytes travel with the STARTTLS line
        need = len(PREFIXES[case['prefix']]) + 1
        while need:
            line = f.readline()
            if not line:
                return
            if line[3:4] == b' ':
                need -= 1
        gevent.sleep(0.05)
        t = cctx.wrap_socket(b, server_hostname='localhost')
        t.sendall(b'NOOP\r\nRCPT TO:<r@y>\r\nQUIT\r\n')
        data = b''
        while True:
            d = t.recv(4096)
            if not d:
                break
            data += d
        out['tls'] = data
    gc = gevent.spawn(client)
    gevent.joinall([g, gc], timeout=5)
    for s in (a, b):
        try:
            s.close()
        except Exception:
            pass
    hits = []
    pt = post_tls(events)
    want_codes = ['r250', 'r503', 'r221']        # NOOP ok; RCPT without a new MAIL refused; QUIT
    if pt is not None:
        codes = [e for e in pt if e.startswith('r')]
        if codes != want_codes:
            hits.append(hit('c08.server-executes-cleartext-after-handshake',
                            'over real TLS: replies after the handshake are not exactly those to the commands sent over TLS',
                            observed=pt, expected=want_codes))
    return None, hits, ['real-tls', 'handshake' if pt is not None else 'no-handshake']


def run_case(case, model):
    fn = {'srv-tls': run_srv_tls, 'srv-auth': run_srv_auth, 'cli-tls': run_cli_tls, 'real-tls': run_real_tls}[case['kind']]
    mismatch, hits, tags = fn(case, model)
    return CaseResult(mismatch, hits, tuple(sorted((k, str(v)) for k, v in case.items())), [case['kind']] + tags)
