"""Shared by C01 / C03 / C13: sequential delivery histories on the real Queue vs the Lean attempt model, with the
property monitors stated over the implementation's observables (relay calls, bounce factory / bounce queue, store)."""
import gevent

from harness.core import CaseResult, hit
from harness import queuedrv
from harness.props.c15 import Backend

BACKENDS = ['dict', 'disk', 'redis', 'cloud']


def gen_history(rng, nrcpt, rounds, kinds, nreplies=3):
    """Outcome strings for up to `rounds` attempts; per-recipient results cover exactly the outstanding recipients."""
    outstanding = list(range(nrcpt))
    outs = []
    for k in range(rounds):
        if not outstanding:
            break
        kind = rng.choice(kinds)
        if kind in 'SPTX':
            if kind == 'S':
                outs.append('S')
                outstanding = []
            elif kind == 'P':
                outs.append('P%d' % rng.randint(1, nreplies))
                outstanding = []
            else:
                outs.append('%s%d' % (kind, rng.randint(1, nreplies)))
            continue
        vals = {}
        for rc in outstanding:
            c = rng.random()
            vals[rc] = 'o' if c < 0.35 else ('p%d' % rng.randint(1, nreplies) if c < 0.6 else 't%d' % rng.randint(1, nreplies))
        if kind == 'M':
            keys = list(outstanding)
            rng.shuffle(keys)
            outs.append('M' + ','.join('%d=%s' % (rc, vals[rc]) for rc in keys))
        else:
            outs.append('Q' + ','.join(vals[rc] for rc in outstanding))
        outstanding = [rc for rc in outstanding if vals[rc][0] == 't']
    return outs


def gen_backoff(rng, maxlen=4):
    n = rng.randint(0, maxlen)
    return [0] * n + [None]


def spec_run(rcpts, outcomes, backoff_table, sender_nonempty, factory):
    """Independent reading of the properties: per round (recipients attempted, attempts arg, expected bounces,
    delivered, failed) and the final state."""
    outstanding = list(rcpts)
    attempts = 0
    rounds = []
    alive = True

    def backoff(a):
        return backoff_table[a - 1] if a - 1 < len(backoff_table) else None

    def groups(pairs, too_many):
        g = []
        for rc, r in pairs:
            for item in g:
                if item[0] == r:
                    item[1].append(rc)
                    break
            else:
                g.append([r, [rc], too_many])
        return g
    for o in outcomes:
        if not alive:
            break
        po = queuedrv.parse_outcome(o)
        rd = {'rcpts': list(outstanding), 'attempts': attempts, 'bounces': [], 'delivered': [], 'failed': []}
        if po[0] == 'S':
            rd['delivered'] = list(outstanding)
            alive = False
        elif po[0] == 'P':
            rd['failed'] = [(rc, po[1]) for rc in outstanding]
            rd['bounces'] = [[po[1], list(outstanding), False]]
            alive = False
        elif po[0] in 'TX':
            attempts += 1
            if backoff(attempts) is None:
                rd['failed'] = [(rc, po[1]) for rc in outstanding]
                rd['bounces'] = [[po[1], list(outstanding), True]]
                alive = False
        else:
            if po[0] == 'M':
                items = po[1]
            else:
                d = {}
                for rc, v in zip(outstanding, po[1]):
                    d[rc] = v
                items = list(d.items())
            perms = [(rc, int(v[1:])) for rc, v in items if v[0] == 'p']
            temps = [(rc, int(v[1:])) for rc, v in items if v[0] == 't']
            rd['delivered'] = [rc for rc, v in items if v == 'o']
            rd['failed'] = list(perms)
            rd['bounces'] = groups(perms, False)
            if temps:
                attempts += 1
                if backoff(attempts) is None:
                    rd['failed'] += temps
                    rd['bounces'] += groups(temps, True)
                    alive = False
                else:
                    keep = {rc for rc, _ in temps}
                    outstanding = [rc for rc in outstanding if rc in keep]
            else:
                alive = False
        if not (sender_nonempty and factory):
            rd['bounces'] = []
        rounds.append(rd)
    final = ('alive', list(outstanding), attempts) if alive else ('gone',)
    return rounds, final


def model_rounds(model, case):
    line = 'attempt run %d %d %s %s %s' % (
        1 if case['sender'] else 0, 1 if case['factory'] else 0,
        ','.join('-' if b is None else str(b) for b in case['backoff']) or '-',
        ','.join(map(str, case['rcpts'])) or '-', '/'.join(case['outcomes']) or '-')
    res = model.ask(line)
    if res == '-':
        return []
    return res.split(' | ')


def canon_round(rcpts_before, attempts_before, bounces):
    b = ';'.join('%d:%s:%d' % (x[0], ','.join(map(str, x[1])) or '-', 1 if x[2] else 0) for x in bounces) or '-'
    return 'pre[%s:%d] b[%s]' % (','.join(map(str, rcpts_before)) or '-', attempts_before, b)


def model_canon(mrounds, rcpts):
    """Re-express the model's per-round output as (message before the round, bounces of the round) + final."""
    out = []
    cur = (list(rcpts), 0)
    final = ('alive', list(rcpts), 0)
    for r in mrounds:
        head, rest = r.split(' b[', 1)
        b, _ = rest.split('] d[', 1)
        bl = []
        if b != '-':
            for item in b.split(';'):
                rp, rc, tm = item.split(':')
                bl.append((int(rp), [int(x) for x in rc.split(',')] if rc != '-' else [], tm == '1'))
        out.append(canon_round(cur[0], cur[1], bl))
        if head == 'gone':
            final = ('gone',)
        else:
            _, rc, att = head.split(':')
            cur = ([int(x) for x in rc.split(',')] if rc != '-' else [], int(att))
            final = ('alive', cur[0], cur[1])
    return out, final


def failure_result(case, h, final, props):
    """A storage operation failed once in the middle of the history. What happens to the message then is not the model's business
    (the task that met the failure dies; the message waits for a restart). What must still hold: a recipient the relay has settled
    is in no later attempt, a bounce names only recipients that failed with its reply, and no failure is bounced twice."""
    hits = []
    script = [queuedrv.parse_outcome(o) for o in case['outcomes']]
    settled_ok, settled = set(), set()
    failed_with = {}            # recipient -> reply id of its permanent failure
    for k, rc, att in h.attempts:
        again = settled & set(rc)
        if again and 'C03' in props:
            hits.append(hit('c03.settled-recipient-reattempted.' + case['backend'] + '.after-storage-failure',
                            'after a storage operation failed, a recipient already delivered or permanently failed is attempted again',
                            observed={'round': k, 'recipients': rc, 'settled': sorted(settled), 'injected': case['store_fail']}))
            break
        o = script[k] if k < len(script) else None
        if o is None:
            break
        if o[0] == 'S':
            settled_ok |= set(rc); settled |= set(rc)
        elif o[0] == 'P':
            settled |= set(rc)
            for r in rc:
                failed_with[r] = o[1]
        elif o[0] == 'M':
            for r, v in o[1]:
                if r in rc and v[0] in 'op':
                    settled.add(r)
                    if v[0] == 'o':
                        settled_ok.add(r)
                    else:
                        failed_with[r] = int(v[1:])
        elif o[0] == 'Q':
            for r, v in zip(rc, o[1]):
                if v[0] in 'op':
                    settled.add(r)
                    if v[0] == 'o':
                        settled_ok.add(r)
                    else:
                        failed_with[r] = int(v[1:])
    if 'C13' in props or 'C01' in props:
        which = 'c13' if 'C13' in props else 'c01'
        seen = set()
        for b in h.bounces:
            if b['obj'] is None:
                continue
            for r in b['rcpts']:
                if r in settled_ok:
                    hits.append(hit(which + '.bounce-names-delivered-recipient.after-storage-failure',
                                    'after a storage operation failed, a bounce names a recipient the relay had delivered to',
                                    observed={'bounce': (b['reply'], b['rcpts'], b['too_many']), 'delivered': sorted(settled_ok), 'injected': case['store_fail']}))
                    break
                if (r, b['too_many']) in seen and not b['too_many']:
                    hits.append(hit(which + '.failure-bounced-twice.after-storage-failure', 'after a storage operation failed, one failure was bounced twice',
                                    observed={'recipient': r, 'bounces': [(x['reply'], x['rcpts']) for x in h.bounces if x['obj'] is not None][:6]}))
                    break
                seen.add((r, b['too_many']))
            if hits:
                break
    tags = [case['backend'], 'storage-failure', 'fail-' + case['store_fail'][0], 'final=' + final[0]]
    key = (case['backend'], tuple(case['outcomes']), tuple(case['store_fail']), tuple(case['rcpts']))
    return CaseResult(None, hits, key, tags)


def run_case(case, model, props):
    """props: which property monitors to apply ('C01', 'C03', 'C13')."""
    be = Backend(case['backend'])
    sender = 'sender@origin.example' if case['sender'] else ''
    pools = case.get('pools') or [None, None]
    mrounds = model_rounds(model, case)
    try:
        h, final = queuedrv.run_history(be, sender, case['factory'], case['backoff'], case['rcpts'], case['outcomes'],
                                        store_pool=pools[0], relay_pool=pools[1], headers_only=case.get('headers_only', False),
                                        expect_rounds=len(mrounds), store_fail=case.get('store_fail'),
                                        timeout=1.0 if case.get('store_fail') else 2.5)
    finally:
        be.close()
    hits = []
    mismatch = None
    if case.get('store_fail'):
        return failure_result(case, h, final, props)
    if final[0] in ('hung', 'error'):
        # the queue stopped moving (or the driver failed): nothing to compare; a stall is C01/C12's business
        tags = [case['backend'], 'final=' + final[0], 'pools=%s' % (pools,)]
        if final[0] == 'error':
            mismatch = {'op': 'driver', 'error': final[1]}
        elif 'C01' in props:
            sig = 'c01.queue-stalls.unbounded-pools' if pools == [None, None] else \
                ('c01.bounded-pool-stall.enqueue-blocked' if not h.attempts else 'c01.bounded-pool-stall.after-attempt')
            hits.append(hit(sig, 'the queue stopped moving: accepted mail is neither delivered, failed nor retried',
                            observed={'attempts': h.attempts, 'why': final[1], 'pools': pools}))
        return CaseResult(mismatch, hits, (case['backend'], tuple(case['outcomes']), tuple(pools)), tags)
    # ---- correspondence
    mc, mfinal = model_canon(mrounds, case['rcpts'])
    ic = []
    for k, rc, att in h.attempts:
        bl = [(b['reply'], b['rcpts'], b['too_many']) for b in h.bounces if b['round'] == k and (case['factory'] or True)]
        if not (case['sender']):
            bl = [x for x in bl]
        ic.append(canon_round(rc, att, bl if case['factory'] else []))
    # the factory is consulted even when it returns None: the model speaks of bounces actually produced
    if pools == [None, None] and mfinal[0] == 'alive' and h.pending is not None and tuple(h.pending) != (mfinal[1], mfinal[2]) and mismatch is None:
        mismatch = {'op': 'attempt run (next attempt)', 'impl_pending': h.pending, 'model_final': mfinal}
    bounded = pools != [None, None]
    if bounded:
        # bounded pools can stall the queue (known finding, C01/C12); the attempt model has no pools: compare what happened
        same = ic == mc[:len(ic)]
    else:
        same = ic == mc and tuple(final) == tuple(mfinal)
    if not same:
        mismatch = {'op': 'attempt run', 'impl': ic, 'model': mc, 'impl_final': final, 'model_final': mfinal, 'errors': h.errors}
    # ---- monitors
    srounds, sfinal = spec_run(case['rcpts'], case['outcomes'], case['backoff'], case['sender'], case['factory'])
    settled = set()
    for k, rc, att in h.attempts:
        if 'C03' in props:
            again = settled & set(rc)
            if again:
                hits.append(hit('c03.settled-recipient-reattempted.' + case['backend'],
                                'a recipient already delivered or permanently failed is attempted again',
                                observed={'round': k, 'recipients': rc, 'settled': sorted(settled)}))
                break
        if k < len(srounds):
            settled |= set(srounds[k]['delivered']) | {x for x, _ in srounds[k]['failed']}
    if 'C03' in props and h.overlap > 1:
        hits.append(hit('c03.two-attempts-in-flight', 'two delivery attempts of one message overlapped', observed=h.overlap))
    if 'C13' in props or 'C01' in props:
        produced = [b for b in h.bounces if b['obj'] is not None]
        for k, sr in enumerate(srounds):
            got = sorted((b['reply'], tuple(sorted(b['rcpts'])), b['too_many']) for b in produced if b['round'] == k)
            want = sorted((x[0], tuple(sorted(x[1])), x[2]) for x in sr['bounces'])
            if got != want and k < len(h.attempts):
                which = 'C13' if 'C13' in props else 'C01'
                hits.append(hit('%s.bounces-per-failure.%s' % (which.lower(), 'null-sender' if not case['sender'] else 'sender'),
                                'bounces of a failure event are not exactly one per distinct reply naming the failed recipients',
                                observed={'round': k, 'bounces': got}, expected=want))
                break
    if 'C13' in props:
        if len(h.enqueued) != len([b for b in h.bounces if b['obj'] is not None]):
            hits.append(hit('c13.bounce-not-enqueued', 'a produced bounce was not handed to the bounce queue (or something else was)',
                            observed=len(h.enqueued), expected=len([b for b in h.bounces if b['obj'] is not None])))
        for b in h.bounces:
            o = b['obj']
            if o is None:
                continue
            hd, body = o.flatten()
            text = hd + body
            problems = []
            if o.sender != '':
                problems.append('bounce sender not empty')
            if o.recipients != ['sender@origin.example']:
                problems.append('not addressed to the original sender only: %r' % (o.recipients,))
            for rc in b['rcpts']:
                if queuedrv.addr(rc).encode() not in body:
                    problems.append('failed recipient %d not named' % rc)
            others = set(case['rcpts']) - set(b['rcpts'])
            for rc in others:
                if queuedrv.addr(rc).encode() in body.split(b'Content-Type: message/')[0]:
                    problems.append('recipient %d named although it did not fail with this reply' % rc)
            if (b['code'] + ' ' + b['message']).encode() not in body:
                problems.append('reply not quoted')
            want_embed = queuedrv.ORIG_HEADERS + b'\r\n' + (b'' if case.get('headers_only') else queuedrv.ORIG_BODY)
            if want_embed not in body:
                problems.append('original header block / body not embedded unchanged')
            if case.get('headers_only') and queuedrv.ORIG_BODY in body:
                problems.append('body embedded although headers-only')
            if problems:
                hits.append(hit('c13.bounce-content', 'bounce message content wrong', observed=problems))
                break
    if 'C01' in props:
        # conservation at the end of the history
        delivered = set()
        failed = set()
        for k, sr in enumerate(srounds):
            if k < len(h.attempts):
                delivered |= set(sr['delivered'])
                failed |= {x for x, _ in sr['failed']}
        stored = set(final[1]) if final[0] == 'alive' else set()
        for rc in case['rcpts']:
            n = (rc in delivered) + (rc in failed) + (rc in stored)
            if n == 0:
                hits.append(hit('c01.recipient-lost.' + case['backend'], 'an accepted recipient is neither delivered, nor failed, nor still stored',
                                observed={'recipient': rc, 'final': final, 'attempts': h.attempts}))
                break
        if tuple(final) != tuple(sfinal) and not hits:
            sig = 'c01.final-state.' + case['backend'] if not bounded else 'c01.bounded-pool-stall.after-attempt'
            hits.append(hit(sig, 'message state after the history differs from what the outcomes imply',
                            observed=final, expected=sfinal))
        if len(h.attempts) < len(srounds) and not hits:
            sig = 'c01.not-retried.' + case['backend'] if not bounded else 'c01.bounded-pool-stall.after-attempt'
            hits.append(hit(sig, 'the message was not attempted again although recipients are outstanding',
                            observed=len(h.attempts), expected=len(srounds)))
    tags = [case['backend'], 'rounds=%d' % len(h.attempts), 'rcpts=%d' % len(case['rcpts']),
            'sender' if case['sender'] else 'null-sender', 'final=' + final[0]]
    tags += sorted({'out-' + o[0] for o in case['outcomes']})
    key = (case['backend'], tuple(case['rcpts']), tuple(case['outcomes']), tuple(case['backoff']), case['sender'], case['factory'])
    return CaseResult(mismatch, hits, key, tags)
