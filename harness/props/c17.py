"""C17 — replies survive the wire: encode/parse round trip, exact consumption, bad replies.

Implementation: real Reply / IO.send_reply -> bytes -> real Reply.recv / IO.recv_reply over a scripted socket.
Model: `reply obj|encode|recv` of the Lean driver (Model/Reply.lean).
"""
import itertools
import re

from harness.core import CaseResult, hit, hx, hxl, rng_for, unhx
from harness.fakes.sock import ScriptSocket, WouldBlock, cut

RULE = ('kind=rt: 1..3 Reply(code, text) objects -> IO.send_reply -> concatenated wire (+ trailing bytes) -> any '
        'recv_buffer prefix / recv() segmentation -> Reply.recv x k; texts are all token sequences (ESC-looking '
        'prefixes, Unicode digits/spaces, CR, LF, CRLF, 8-bit) up to a length bound x 7 codes; kind=bad: every '
        'token sequence over {250,550,25,0,SP,TAB,-,a,CR,LF,0xff} up to a bound as a raw reply stream, compared with '
        'a line-level specification parser. distinct = distinct case descriptors; non-trivial = non-empty stream.')

CODES = ['200', '250', '354', '421', '450', '550', '599']
TEXT_TOKENS = ['a', ' ', '2.0.0', '5.1.1', '2.٣.0', '.', '2', '\r\n', '\n', '\r', '\xe9', '\xa0', '4.10.999 ', 'b c']
BAD_TOKENS = [b'250', b'550', b'25', b'0', b' ', b'\t', b'-', b'a', b'\r', b'\n', b'\xff']
BUDGET_S = {'quick': 150, 'thorough': 1200}


def seg_choice(rng):
    c = rng.randrange(4)
    if c == 0:
        return 0, list(range(1, 64))
    if c == 1:
        return 0, []
    if c == 2:
        return rng.randint(0, 64), []
    return rng.choice([0, rng.randint(0, 64)]), sorted(rng.sample(range(1, 64), rng.randint(1, 4)))


def cases(tier, seed, phase):
    for j in range(3000 if tier == 'quick' else 40000):
        def mk(j=j):
            return {'kind': 'objseq', 'ops': gen_objseq(rng_for(seed, 'c17o', j))}
        yield mk
    idx = 0
    full = 3 if tier == 'quick' else 4
    for n in range(0, full + 1):
        for toks in itertools.product(TEXT_TOKENS, repeat=n):
            text = ''.join(toks)
            for code in CODES:
                idx += 1
                rng = rng_for(seed, 'c17', idx)
                b0, cuts = seg_choice(rng)
                yield {'kind': 'rt', 'replies': [[code, text]], 'trail': '', 'buf0frac': b0, 'cutfracs': cuts}
    nsamp = 20000 if tier == 'quick' else 200000
    for j in range(nsamp):
        rng = rng_for(seed, 'c17s', j)
        reps = []
        for _ in range(rng.randint(1, 3)):
            text = ''.join(rng.choice(TEXT_TOKENS) for _ in range(rng.randint(0, 6)))
            reps.append([rng.choice(CODES + [str(rng.randint(200, 599))]), text])
        b0, cuts = seg_choice(rng)
        trail = rng.choice([b'', b'', b'250 next\r\n', b'25', b'\xff'])
        yield {'kind': 'rt', 'replies': reps, 'trail': trail.hex(), 'buf0frac': b0, 'cutfracs': cuts}
    fullb = 5 if tier == 'quick' else 6
    for n in range(1, fullb + 1):
        for toks in itertools.product(BAD_TOKENS, repeat=n):
            idx += 1
            if n >= 5 and tier == 'quick' and idx % 2:
                continue
            rng = rng_for(seed, 'c17b', idx)
            b0, cuts = seg_choice(rng)
            yield {'kind': 'bad', 'stream': b''.join(toks).hex(), 'buf0frac': b0, 'cutfracs': cuts}
    for j in range(20000 if tier == 'quick' else 200000):
        rng = rng_for(seed, 'c17bs', j)
        lines = []
        for _ in range(rng.randint(1, 4)):
            code = rng.choice([b'250', b'250', b'250', b'550', b'2x0', b'', b'25', b'2500', b'000', b'999', b'600', b'599', b'100', b'099'])      # (the edges of 1xx-5xx)
            sep = rng.choice([b'-', b'-', b' ', b' ', b'\t', b'', b'x'])
            text = rng.choice([b'ok', b'', b'\xc3\xa9', b'\xff', b'\xc0\x80', b'\xed\xa0\x80', b'a\rb', b'250-x', b' x'])
            eol = rng.choice([b'\r\n', b'\r\n', b'\n', b'\r\r\n', b''])
            lines.append(code + sep + text + eol)
        b0, cuts = seg_choice(rng)
        yield {'kind': 'bad', 'stream': b''.join(lines).hex(), 'buf0frac': b0, 'cutfracs': cuts}


def resolve_seg(stream, case):
    n = len(stream)
    if n <= 64:
        b0 = min(case['buf0frac'], n)
        cuts = [c for c in case['cutfracs'] if c < n]
    else:
        b0 = case['buf0frac'] * n // 64
        cuts = [c * n // 64 for c in case['cutfracs']]
    rest = stream[b0:]
    return stream[:b0], cut(rest, [c - b0 for c in cuts if c > b0])


def cps(s):
    return ','.join(str(ord(c)) for c in s) if s else '-'


def uncps(s):
    if s == 'None':
        return None
    return '' if s == '-' else ''.join(chr(int(x)) for x in s.split(','))


def norm_crlf(s):
    return re.sub('\r?\n', '\r\n', s)


_LINE = re.compile(rb'(\d\d\d)([ \t-])(.*)', re.S)


OBJ_TEXTS = ['2.1.5 Recipient ok', '5.7.1 Relaying denied', '4.3.0 try later', 'plain text', '2.0.0', '5.1.1  two spaces', '3.0.0 not an esc class', '', 'x']


def gen_objseq(rng):
    ops = []
    for _ in range(rng.randint(2, 6)):
        c = rng.random()
        if c < 0.45:
            ops.append(['c', rng.choice(['250', '550', '451', '354', '220', '421', '235'])])
        elif c < 0.9:
            ops.append(['m', rng.choice(OBJ_TEXTS)])
        else:
            ops.append(['x'])
    if not any(o[0] == 'c' for o in ops):
        ops.insert(0, ['c', '250'])
    return ops


def run_objseq(case, model):
    from slimta.smtp.reply import Reply
    from slimta.smtp.io import IO
    r = Reply()
    parts = []
    for op in case['ops']:
        if op[0] == 'c':
            r.code = op[1]
            parts.append('c:' + cps(op[1]))
        elif op[0] == 'm':
            r.message = op[1]
            parts.append('m:' + cps(op[1]))
        else:
            r.enhanced_status_code = False
            parts.append('x')
    smsg, sesc = r.message, r.enhanced_status_code
    want = 'msg=%s esc=%s' % (cps(smsg) if smsg is not None else 'None', cps(sesc) if sesc is not None else 'None')
    m = model.ask('reply objseq %s' % ';'.join(parts))
    mismatch = None if m == want else {'op': 'reply objseq', 'ops': case['ops'], 'impl': want, 'model': m}
    hits = []
    if sesc and r.code and sesc[0] != r.code[0]:
        hits.append(hit('c17.esc-class', 'enhanced status class differs from the reply code class', observed=sesc, expected=r.code))
    # what goes on the wire carries the same class, and reads back as the same reply
    # (a reply whose enhanced status code was switched off is sent without one; the reader cannot know and shows the
    #  default x.0.0 — the documented presentation of Reply.message, not a change of the text on the wire)
    if r.code and smsg is not None and r._esc is not False:
        sio = IO(ScriptSocket([]))
        r.send(sio)
        w = sio.send_buffer.getvalue()
        back = Reply()
        back.recv(IO(ScriptSocket([w])))
        if (back.code, back.message) != (r.code, norm_crlf(smsg) if smsg else smsg) and not smsg[:1].isspace():
            hits.append(hit('c17.object-not-round-tripped', 'a reply built in several steps does not read back as it was sent',
                            observed=[back.code, back.message], expected=[r.code, smsg]))
    return CaseResult(mismatch, hits, ('objseq', repr(case['ops'])), ['objseq'])


def spec_parse(stream):
    """Line-level specification of one reply at the head of `stream`."""
    code = None
    texts = []
    pos = 0
    while True:
        nl = stream.find(b'\n', pos)
        if nl < 0:
            return ('incomplete',)
        line = stream[pos:nl]
        if line.endswith(b'\r'):
            line = line[:-1]
        m = _LINE.fullmatch(line)
        if not m:
            return ('bad',)
        if code is not None and m.group(1) != code:
            return ('bad',)
        code = m.group(1)
        texts.append(m.group(3))
        pos = nl + 1
        if m.group(2) != b'-':
            if not (b'1' <= code[:1] <= b'5'):
                return ('bad',)          # a reply code is 1xx..5xx; anything else is not a reply
            try:
                return ('ok', code.decode('ascii'), b'\r\n'.join(texts).decode('utf-8'), stream[pos:])
            except UnicodeDecodeError:
                return ('bad',)


def impl_recv_reply(io):
    from slimta.smtp import BadReply, ConnectionLost
    try:
        code, msg = io.recv_reply()
    except WouldBlock:
        return ('err', 'wouldBlock')
    except BadReply:
        return ('err', 'badReply')
    except ConnectionLost:
        return ('err', 'connectionLost')
    except Exception as e:      # anything else is an observable in its own right
        return ('err', 'other:' + type(e).__name__)
    return ('ok', code, msg)


def model_recv(model, buf_before, pieces):
    return model.ask('reply recv %s %s' % (hx(buf_before), hxl(pieces)))


def canon_recv(res, io, sock):
    if res[0] == 'ok':
        return 'ok %s %s %s %s' % (hx(res[1].encode()), hx(res[2].encode('utf-8')), hx(io.recv_buffer), hx(sock.unread()))
    if res[1] == 'badReply':
        return 'err badReply %s' % hx(io.recv_buffer)
    return 'err ' + res[1]


def run_case(case, model):
    if case['kind'] == 'objseq':
        return run_objseq(case, model)
    from slimta.smtp.io import IO
    from slimta.smtp.reply import Reply
    hits = []
    mismatch = None
    tags = [case['kind']]

    def mm(d):
        nonlocal mismatch
        if mismatch is None:
            mismatch = d

    if case['kind'] == 'rt':
        sent = []
        wire = b''
        in_domain = True
        for code, text in case['replies']:
            r = Reply(code, text)
            smsg = r.message
            sesc = r.enhanced_status_code
            mobj = model.ask('reply obj %s %s' % (cps(code), cps(text)))
            want = 'msg=%s esc=%s' % (cps(smsg) if smsg is not None else 'None', cps(sesc) if sesc is not None else 'None')
            if mobj != want:
                mm({'op': 'reply obj', 'code': code, 'text': text, 'impl': want, 'model': mobj})
            sio = IO(ScriptSocket([]))
            r.send(sio)
            w = sio.send_buffer.getvalue()
            mw = unhx(model.ask('reply encode %s %s' % (hx(code.encode()), hx(smsg.encode('utf-8')))))
            if mw != w:
                mm({'op': 'reply encode', 'impl': w.hex(), 'model': mw.hex()})
            if sesc and sesc[0] != code[0]:
                hits.append(hit('c17.esc-class', 'enhanced status class differs from the reply code class',
                                observed=sesc, expected=code[0]))
            if text[:1].isspace():
                in_domain = False
            sent.append((code, smsg))
            wire += w
        trail = bytes.fromhex(case['trail'])
        stream = wire + trail
        buf0, segs = resolve_seg(stream, case)
        sock = ScriptSocket(segs)
        io = IO(sock)
        io.recv_buffer = buf0
        tags.append('replies=%d' % len(sent))
        tags.append('in-domain' if in_domain else 'outside-domain(leading-ws)')
        for i, (code, smsg) in enumerate(sent):
            before_buf = io.recv_buffer
            before_n = len(sock.recvd)
            res = impl_recv_reply(io)
            pieces = sock.recvd[before_n:] + list(sock.segments)
            mres = model_recv(model, before_buf, pieces)
            canon = canon_recv(res, io, sock)
            if canon != mres:
                mm({'op': 'reply recv', 'impl': canon, 'model': mres, 'buf': before_buf.hex(), 'pieces': [p.hex() for p in pieces]})
            if not in_domain:
                break
            want_text = norm_crlf(smsg)
            if res[0] != 'ok':
                hits.append(hit('c17.roundtrip-error', 'a reply written by the library was not parsed back',
                                observed=canon, expected=[code, want_text]))
                break
            # what the application sees: a Reply populated through the setters
            r2 = Reply()
            try:
                r2.code, r2.message = res[1], res[2]
            except ValueError as e:
                hits.append(hit('c17.roundtrip-error', 'parsed reply rejected by Reply setters', observed=repr(e)))
                break
            if (r2.code, r2.message) != (code, want_text):
                cls = '13' if code[0] in '13' else '245'
                hits.append(hit('c17.roundtrip-text.code-class-' + cls,
                                'reply text/code changed by the wire round trip',
                                observed=[r2.code, r2.message], expected=[code, want_text]))
                break
            if i == len(sent) - 1 and io.recv_buffer + sock.unread() != trail:
                hits.append(hit('c17.consumption', 'bytes after the reply were consumed or invented',
                                observed=(io.recv_buffer + sock.unread()).hex(), expected=trail.hex()))
        key = ('rt', tuple(map(tuple, case['replies'])), case['trail'], case['buf0frac'], tuple(case['cutfracs']))
    else:
        stream = bytes.fromhex(case['stream'])
        buf0, segs = resolve_seg(stream, case)
        sock = ScriptSocket(segs)
        io = IO(sock)
        io.recv_buffer = buf0
        res = impl_recv_reply(io)
        pieces = list(sock.recvd) + list(sock.segments)
        mres = model_recv(model, buf0, pieces)
        canon = canon_recv(res, io, sock)
        if canon != mres:
            mm({'op': 'reply recv', 'impl': canon, 'model': mres, 'buf': buf0.hex(), 'pieces': [p.hex() for p in pieces]})
        spec = spec_parse(stream)
        tags.append('spec=' + spec[0])
        if spec[0] == 'bad' and res != ('err', 'badReply'):
            hits.append(hit('c17.malformed-not-badreply', 'malformed reply did not raise BadReply',
                            observed=canon, expected='BadReply'))
        elif spec[0] == 'ok':
            if res[0] != 'ok' or (res[1], res[2]) != (spec[1], spec[2]) or io.recv_buffer + sock.unread() != spec[3]:
                hits.append(hit('c17.segmentation-dependent', 'parse result differs from the line-level specification',
                                observed=canon, expected=[spec[1], spec[2], spec[3].hex()]))
        elif spec[0] == 'incomplete' and res != ('err', 'wouldBlock'):
            hits.append(hit('c17.partial-reply-returned', 'an incomplete reply did not make the parser wait for more',
                            observed=canon, expected='wait'))
        key = ('bad', case['stream'], case['buf0frac'], tuple(case['cutfracs'])) if stream else None
    return CaseResult(mismatch, hits, key, tags)
