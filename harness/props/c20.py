"""C20 — Envelope parsing keeps the body byte-exact and the headers intact.

Implementation: real Envelope.parse / flatten / copy, pickle as the stores do, encode_7bit.
Model: `envelope pf|fields|7bit` of the Lean driver (Model/Envelope.lean) on the well-formed domain.
"""
import pickle
import re

from harness.core import CaseResult, hit, hx, rng_for

RULE = ('kind=wf: messages generated from a header-field grammar (1..6 fields, duplicate names, folded values with SP/TAB '
        'continuation lines, 8-bit and RFC2047-looking values, every line <= 78 bytes, LF or CRLF or mixed endings) + '
        'blank line + body (NUL, lone CR, leading blank lines, dot lines, 8-bit, empty): parse/flatten/copy/pickle/'
        're-parse compared with the model and with the generator\'s own field list; kind=raw: arbitrary byte strings '
        '(no header block, over-long lines, white-space-only continuation lines): no exception; kind=7bit: UTF-8 text '
        'bodies with CRLF through encode_7bit(None|base64|quopri). distinct = distinct case data; non-trivial = '
        'non-empty data.')

BUDGET_S = {'quick': 150, 'thorough': 1200}
NAMES = [b'Subject', b'From', b'To', b'X-Test', b'Received', b'Date', b'x-a.b_c', b'Message-Id', b'Content-Type']
WORDS = [b'a', b'bc', b'hello', b'<x@y.z>', b'\xe9', b'\xc3\xa9', b'=?utf-8?q?x?=', b';', b':', b'123', b'"q"', b'(c)', b'.', b',']
BODIES = [b'', b'body\r\n', b'\r\nbody', b'\n\nbody\n', b'\x00\x01\x02', b'a\rb\r', b'.\r\n..\r\nx', b'\xff\xfe 8bit \xe9\r\n',
          b'Subject: not a header\r\n\r\nmore', b' \r\n', b'\n', b'\r\n\r\n']


def gen_value_lines(rng):
    lines = []
    for li in range(rng.choice([1, 1, 1, 2, 3])):
        n = rng.randint(1, 6)
        words = [rng.choice(WORDS) for _ in range(n)]
        line = b' '.join(words) if rng.random() < 0.8 else b'\t'.join(words)
        lines.append(line)
    return lines


def gen_wf(rng):
    fields = []
    for _ in range(rng.randint(1, 6)):
        name = rng.choice(NAMES)
        lines = gen_value_lines(rng)
        # respect the 78-byte limit
        first = name + b': ' + lines[0]
        if len(first) > 78:
            lines[0] = lines[0][:78 - len(name) - 2].rstrip(b' \t') or b'x'
        lines = [l[:70].rstrip(b' \t') or b'x' for l in lines]
        conts = [rng.choice([b' ', b'\t', b'  ']) for _ in lines[1:]]
        fields.append((name, lines, conts))
    eolmode = rng.choice(['lf', 'crlf', 'crlf', 'mixed'])

    def eol():
        if eolmode == 'lf':
            return b'\n'
        if eolmode == 'crlf':
            return b'\r\n'
        return rng.choice([b'\n', b'\r\n'])
    h = b''
    for name, lines, conts in fields:
        h += name + b': ' + lines[0] + eol()
        for c, l in zip(conts, lines[1:]):
            h += c + l + eol()
    blank = eol()
    body = rng.choice(BODIES) if rng.random() < 0.6 else bytes(rng.randrange(256) for _ in range(rng.randint(0, 60)))
    if rng.random() < 0.06:
        # a header block and nothing else: no blank line, no body (the `none` branch of the model's boundary search; the model mutant
        # `envelope-crlf-boundary-first` survived the campaign until these were generated)
        blank, body = b'', b''
    spec_fields = [[name.hex(), [lines[0].hex()] + [(c + l).hex() for c, l in zip(conts, lines[1:])]] for name, lines, conts in fields]
    return {'kind': 'wf', 'h': h.hex(), 'blank': blank.hex(), 'body': body.hex(), 'fields': spec_fields}


def gen_raw(rng):
    c = rng.randrange(6)
    if c == 0:
        d = bytes(rng.randrange(256) for _ in range(rng.randint(0, 120)))
    elif c == 1:
        d = b'no header block here\r\njust text\r\n'
    elif c == 2:
        d = b'Subject: ' + b'x' * rng.randint(80, 1200) + b'\r\n\r\nbody'
    elif c == 3:
        d = b'Subject: a\r\n \t \r\n b\r\n\r\nbody'
    elif c == 4:
        d = rng.choice([b'', b'\r\n', b'\n\n', b':\r\n\r\n', b' leading\r\nA: b\r\n\r\n', b'A b\r\nC: d\r\n\r\nx', b'A: b'])
    else:
        toks = [b'A: b', b'\r\n', b'\n', b' ', b'\t', b':', b'\xff', b'\r', b'=?x?q?=', b'From x', b'\x00']
        d = b''.join(rng.choice(toks) for _ in range(rng.randint(0, 14)))
    return {'kind': 'raw', 'data': d.hex()}


TEXTS = ['h\xe9llo w\xf6rld', 'plain ascii', 'del \x7f is ascii', '你好', 'a' * 100 + '\xe9', 'tab\there \xe9 ', '=equals= \xe9', '.\xe9\r\n.dot',
         'trailing space \xe9 \r\nnext', 'x' * 76 + '\r\n\xe9']


def gen_7bit(rng):
    lines = [rng.choice(TEXTS) for _ in range(rng.randint(1, 4))]
    body = ('\r\n'.join(lines) + rng.choice(['', '\r\n'])).encode('utf-8')
    enc = rng.choice(['none', 'base64', 'quopri'])
    # what the header claims about the body (the body is what it is: raw text, possibly 8-bit, whatever the label says)
    cte = rng.choice(['8bit', '8bit', '8bit', None, '7bit', 'binary', 'quoted-printable', 'Quoted-Printable', 'base64', 'BASE64'])
    return {'kind': '7bit', 'body': body.hex(), 'encoder': enc, 'cte': cte}


def cases(tier, seed, phase):
    n = {'quick': (6000, 2500, 700), 'thorough': (120000, 40000, 12000)}[tier]
    for j in range(n[0]):
        yield (lambda j=j: gen_wf(rng_for(seed, 'c20wf', j)))
    for j in range(n[1]):
        yield (lambda j=j: gen_raw(rng_for(seed, 'c20raw', j)))
    for j in range(n[2]):
        yield (lambda j=j: gen_7bit(rng_for(seed, 'c20sb', j)))


def crlf(b):
    return re.sub(rb'\r?\n', b'\r\n', b)


def raw_fields(env):
    out = []
    for name, value in env.headers.raw_items():
        if isinstance(value, str):
            vb = value.encode('ascii', 'surrogateescape')
        else:
            vb = str(value).encode('ascii', 'surrogateescape')
        lines = re.split(rb'\r?\n', vb)
        out.append([name.encode('ascii', 'surrogateescape').hex(), [l.hex() for l in lines]])
    return out


def run_case(case, model):
    from slimta.envelope import Envelope
    hits = []
    mismatch = None
    kind = case['kind']
    tags = [kind]
    if kind == 'wf':
        h = bytes.fromhex(case['h'])
        blank = bytes.fromhex(case['blank'])
        body = bytes.fromhex(case['body'])
        data = h + blank + body
        env = Envelope('s@x', ['r@y'])
        try:
            env.parse(data)
            hd, msg = env.flatten()
            fields = raw_fields(env)
            c = env.copy()
            chd, cmsg = c.flatten()
            p = pickle.loads(pickle.dumps(env, pickle.HIGHEST_PROTOCOL))
            phd, pmsg = p.flatten()
            e2 = Envelope()
            e2.parse(hd + msg)
            rhd, rmsg = e2.flatten()
        except Exception as e:
            hits.append(hit('c20.wf-raises.' + type(e).__name__, 'parse/flatten/copy/pickle raised on a well-formed message', observed=repr(e)))
            return CaseResult(None, hits, ('wf', case['h'], case['blank'], case['body']), tags + ['raised'])
        m = model.ask('envelope pf ' + hx(data))
        canon = '%s %s' % (hx(hd), hx(msg))
        if m != canon:
            mismatch = {'op': 'envelope pf', 'impl': canon, 'model': m}
        mf = model.ask('envelope fields ' + hx(data))
        cf = ';'.join('%s=%s' % (n or '-', '|'.join(l or '-' for l in ls)) for n, ls in fields) or '-'
        if mf != cf and mismatch is None:
            mismatch = {'op': 'envelope fields', 'impl': cf, 'model': mf}
        # ---- monitor (specification: the generator's own field list, CRLF-normalised header block, body bytes)
        if msg != body:
            hits.append(hit('c20.body-changed', 'body bytes after the first blank line were not returned unchanged',
                            observed=msg.hex(), expected=body.hex()))
        want_hd = crlf(h) + b'\r\n'
        if hd != want_hd:
            hits.append(hit('c20.header-block-changed', 'flattened header block differs from the CRLF-normalised original',
                            observed=hd.hex(), expected=want_hd.hex()))
        if fields != case['fields']:
            hits.append(hit('c20.fields-changed', 'header fields / order / values differ', observed=fields, expected=case['fields']))
        if (chd, cmsg) != (hd, msg):
            hits.append(hit('c20.copy-differs', 'deep copy flattens differently', observed=[chd.hex(), cmsg.hex()]))
        if (phd, pmsg) != (hd, msg):
            hits.append(hit('c20.pickle-differs', 'pickled envelope flattens differently', observed=[phd.hex(), pmsg.hex()]))
        if (rhd, rmsg) != (hd, msg):
            hits.append(hit('c20.reparse-not-fixed-point', 're-parsing the flattened output is not a fixed point',
                            observed=[rhd.hex(), rmsg.hex()], expected=[hd.hex(), msg.hex()]))
        # ---- envelopes are independent: changing the headers of one envelope (as the header policies do), of its copy or of its
        # pickled twin must not show in another envelope parsed from the same bytes, before or afterwards
        try:
            twin = Envelope('s2@x', ['r2@y'])
            twin.parse(data)
            for victim in (env, c, p):
                victim.prepend_header('X-Verif-Probe', 'added later')
                if 'Subject' in victim.headers:
                    victim.headers.replace_header('Subject', 'changed')
                else:
                    victim.headers['Subject'] = 'changed'
            later = Envelope('s3@x', ['r3@y'])
            later.parse(data)
            for name, e in (('an envelope parsed earlier from the same bytes', twin), ('an envelope parsed afterwards from the same bytes', later)):
                if e.flatten() != (hd, msg):
                    hits.append(hit('c20.envelopes-share-headers', 'changing the headers of one envelope changed ' + name,
                                    observed=e.flatten()[0][:200].hex(), expected=hd[:200].hex()))
                    break
        except Exception as e:
            hits.append(hit('c20.wf-raises.' + type(e).__name__, 'header modification / second parse raised on a well-formed message', observed=repr(e)))
        tags.append('eol=' + ('crlf' if b'\r\n' in h and b'\n' not in h.replace(b'\r\n', b'') else 'lf' if b'\r\n' not in h else 'mixed'))
        tags.append('fields=%d' % len(case['fields']))
        if any(len(f[1]) > 1 for f in case['fields']):
            tags.append('folded')
        key = ('wf', case['h'], case['blank'], case['body'])
    elif kind == 'raw':
        data = bytes.fromhex(case['data'])
        try:
            env = Envelope('s@x', ['r@y'])
            env.parse(data)
            hd, msg = env.flatten()
            env.copy().flatten()
            pickle.loads(pickle.dumps(env, pickle.HIGHEST_PROTOCOL)).flatten()
        except Exception as e:
            hits.append(hit('c20.raw-raises.' + type(e).__name__, 'parse/flatten/copy/pickle raised on arbitrary bytes',
                            observed=repr(e)))
        key = ('raw', case['data']) if data else None
    else:
        import email
        from email.encoders import encode_base64, encode_quopri
        body = bytes.fromhex(case['body'])
        cte = case.get('cte', '8bit')
        hdr = b'From: a@b\r\nMIME-Version: 1.0\r\nContent-Type: text/plain; charset="utf-8"\r\n' + \
            (b'Content-Transfer-Encoding: ' + cte.encode() + b'\r\n' if cte else b'') + b'\r\n'
        tags.append('cte=' + str(cte).lower())
        env = Envelope('s@x', ['r@y'])
        env.parse(hdr + body)
        enc = {'none': None, 'base64': encode_base64, 'quopri': encode_quopri}[case['encoder']]
        eight = any(b > 127 for b in body)
        tags.append('enc=' + case['encoder'])
        tags.append('8bit' if eight else 'ascii')
        # a refusal does not wear off: a relay that refused the message once (no encoder) refuses it again on the next attempt, and
        # so do its copy and its pickled twin; only then is the call under test made
        if eight and case.get('refused_before', True):
            for victim in ('same', 'copy', 'pickle'):
                e0 = env if victim == 'same' else env.copy() if victim == 'copy' else pickle.loads(pickle.dumps(env, pickle.HIGHEST_PROTOCOL))
                for _ in range(2):
                    try:
                        e0.encode_7bit(None)
                        hits.append(hit('c20.7bit-passes-8bit.after-refusal', '8-bit body passed on without an encoder on a repeated attempt (%s envelope)' % victim,
                                        observed=e0.flatten()[1][:60].hex(), expected='UnicodeError'))
                        break
                    except UnicodeError:
                        pass
                    except Exception as e:
                        hits.append(hit('c20.7bit-encoder-raises', 'encode_7bit raised something else', observed=repr(e)))
                        break
        try:
            env.encode_7bit(enc)
            raised = None
        except UnicodeError as e:
            raised = 'unicode-error'
        except Exception as e:
            raised = 'other:' + type(e).__name__
        if enc is None:
            m = model.ask('envelope 7bit ' + hx(body))
            canon = raised if raised else 'ok ' + hx(env.message)
            if m != canon:
                mismatch = {'op': 'envelope 7bit', 'impl': canon, 'model': m}
            if eight and raised != 'unicode-error':
                hits.append(hit('c20.7bit-passes-8bit', '8-bit body passed on without an encoder', observed=canon, expected='UnicodeError'))
            if not eight and raised:
                hits.append(hit('c20.7bit-refuses-ascii', 'ASCII body refused', observed=canon))
        else:
            if raised:
                hits.append(hit('c20.7bit-encoder-raises', 'encode_7bit with an encoder raised', observed=raised))
            else:
                hd, msg = env.flatten()
                if any(b > 127 for b in msg):
                    hits.append(hit('c20.7bit-not-ascii', 'body still holds 8-bit data after encode_7bit', observed=msg.hex()))
                elif eight or case.get('cte', '8bit') in ('8bit', '7bit', 'binary', None):
                    # (an ASCII body under a label that claims an encoding is left alone: there is nothing to convert, and nothing to decode)
                    back = email.message_from_bytes(hd + msg).get_payload(decode=True)
                    norm = lambda b: re.sub(rb'\r?\n', b'\n', b).rstrip(b'\n')
                    if back is None or norm(back).decode('utf-8', 'replace') != norm(body).decode('utf-8', 'replace'):
                        hits.append(hit('c20.7bit-decode-differs', '7-bit body does not decode to the same text',
                                        observed=None if back is None else back.hex(), expected=body.hex()))
        key = ('7bit', case['body'], case['encoder'], case.get('cte', '8bit'))
    return CaseResult(mismatch, hits, key, tags)
