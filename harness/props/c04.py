"""C04 — a crash at any point never loses an acknowledged message (disk queue).

Implementation: real DiskStorage (real pyaio) with os.rename / os.remove / mkstemp / each written chunk interposed in the
slimta.diskstorage namespace: the three directories are snapshotted before and after every file-system effect of every
operation; every snapshot is reopened by a fresh DiskStorage (load + get). Two operations on different messages are
also run concurrently (their effects interleave).
Model: `disk trace` of the Lean driver (Model/DiskFS.lean): recover(crashAt ...) for every effect prefix.
"""
import os
import pickle
import shutil
import tempfile

from harness.core import CaseResult, hit, rng_for

RULE = ('operation histories (write, set_timestamp, increment_attempts, set_recipients_delivered (index lists in any order), remove) over 1..4 messages; at every crash snapshot also a real Queue restarted on the directories (load, flush): every recovered message handed to the relay once, with the stored recipients and attempt counter; '
        'after every file-system effect (temp-file creation, each chunk written with an 80-byte chunk size, rename, unlink) of '
        'every operation the directories are copied and reopened by a fresh DiskStorage; some histories run two operations on '
        'different messages concurrently. distinct = distinct (history, concurrency); evaluations count crash snapshots reopened; '
        'non-trivial = snapshot taken inside an operation.')
BUDGET_S = {'quick': 150, 'thorough': 1500}


def gen_history(rng):
    ops = []
    live = {}
    nw = 0
    n = rng.randint(3, 9)
    for _ in range(n):
        c = rng.random()
        if not live or (c < 0.25 and nw < 4):
            nr = rng.randint(1, 4)
            ops.append(['w', nw, nr, 1000 + rng.randint(0, 99)])
            live[nw] = nr
            nw += 1
            continue
        i = rng.choice(sorted(live))
        c = rng.random()
        if c < 0.3:
            ops.append(['t', i, 2000 + rng.randint(0, 99)])
        elif c < 0.55:
            ops.append(['i', i])
        elif c < 0.8:
            if live[i] > 0:
                k = rng.randint(1, live[i])
                idxs = rng.sample(range(live[i]), k)          # any order: the storage sorts a round itself (the model: sortDesc)
                live[i] -= k
                ops.append(['d', i, idxs])
            else:
                ops.append(['i', i])
        else:
            ops.append(['r', i])
            del live[i]
    return ops


def cases(tier, seed, phase):
    for j in range(24 if tier == 'quick' else 400):
        rng = rng_for(seed, 'c04s', j)
        yield {'kind': 'scanwrite', 'nbefore': rng.choice([0, 1, 3]), 'nwrites': rng.choice([1, 2, 3]), 'scan_at': rng.choice(['env', 'meta', 'both', 'midfile', 'midfile']),
               'then_crash': rng.random() < 0.5}
    for j in range(24 if tier == 'quick' else 400):
        rng = rng_for(seed, 'c04f', j)
        yield {'kind': 'writefail', 'op': rng.choice(['t', 'i', 'd']), 'fail_at': rng.choice(['chunk', 'chunk2', 'rename']),
               'how': rng.choice(['oserror', 'oserror', 'kill']), 'nmsg': rng.choice([1, 2, 3])}
    n = 90 if tier == 'quick' else 1500
    for j in range(n):
        def mk(j=j):
            rng = rng_for(seed, 'c04', j)
            return {'ops': gen_history(rng), 'concurrent': j % 3 == 2, 'default_tmp': j % 4 == 3}
        yield mk


class Tracer(object):
    """Interposes the file-system effects of slimta.diskstorage and snapshots the directories."""

    def __init__(self, root):
        self.root = root
        self.snaps = []          # (tag, {relpath: bytes})
        self.current = None      # op index the effect belongs to (by greenlet)
        self.counts = {}

    def snap(self, tag):
        files = {}
        for d in ('env', 'meta', 'tmp'):
            p = os.path.join(self.root, d)
            for fn in os.listdir(p):
                try:
                    with open(os.path.join(p, fn), 'rb') as f:
                        files[d + '/' + fn] = f.read()
                except OSError:
                    pass
        self.snaps.append((tag, files))

    def effect(self, kind, path=None):
        import gevent
        op = getattr(gevent.getcurrent(), 'verif_op', None)
        self.counts[op] = self.counts.get(op, 0) + 1
        where = None
        if path is not None:
            d = os.path.basename(os.path.dirname(os.path.abspath(path)))
            where = d if d in ('env', 'meta', 'tmp') else 'elsewhere'
        self.snap((op, self.counts[op], kind, where))


def install(tr):
    import slimta.diskstorage as ds
    real_os = ds.os
    saved = {'os': ds.os, 'mkstemp': getattr(ds, 'mkstemp', None), 'wp': ds.AioFile._write_piece, 'chunk': ds.AioFile.chunk_size}

    class OsProxy(object):
        def __getattr__(self, name):
            return getattr(real_os, name)

        def rename(self, a, b):
            real_os.rename(a, b)
            tr.effect('rename', b)

        def remove(self, p):
            try:
                real_os.remove(p)
            finally:
                tr.effect('unlink', p)

        def open(self, path, flags, *a, **kw):
            r = real_os.open(path, flags, *a, **kw)
            if flags & (real_os.O_WRONLY | real_os.O_RDWR) and flags & (real_os.O_TRUNC | real_os.O_CREAT):
                tr.effect('open-write')        # a write that does not go through a temporary file
            return r

        def truncate(self, *a, **kw):
            r = real_os.truncate(*a, **kw)
            tr.effect('open-write')
            return r

    def mkstemp(dir=None):
        r = saved['mkstemp'](dir=dir)
        tr.effect('create')
        return r

    def wp(self, fd, data, data_len, offset):
        r = saved['wp'](self, fd, data, data_len, offset)
        tr.effect('append')
        return r

    ds.os = OsProxy()
    if saved['mkstemp'] is not None:        # (a rewrite may have stopped using it: its file creations are then seen through os.open)
        ds.mkstemp = mkstemp
    ds.AioFile._write_piece = wp
    ds.AioFile.chunk_size = 80
    return saved


def uninstall(saved):
    import slimta.diskstorage as ds
    ds.os = saved['os']
    if saved['mkstemp'] is not None:
        ds.mkstemp = saved['mkstemp']
    ds.AioFile._write_piece = saved['wp']
    ds.AioFile.chunk_size = saved['chunk']


def make_env(k, nr):
    from slimta.envelope import Envelope
    env = Envelope('s%d@example.com' % k, ['r%d.%d@example.com' % (k, x) for x in range(nr)])
    env.parse(b'Subject: m%d\r\n\r\nbody %d \xff\r\n' % (k, k))
    return env


def reopen(files, default_tmp=False, with_queue=False):
    """A fresh DiskStorage over a copy of the snapshot: what load()/get() give. Returns (listing, problems)."""
    from slimta.diskstorage import DiskStorage
    root = tempfile.mkdtemp(prefix='verif_c04r_')
    try:
        for d in ('env', 'meta', 'tmp'):
            os.mkdir(os.path.join(root, d))
        for rel, data in files.items():
            with open(os.path.join(root, rel), 'wb') as f:
                f.write(data)
        st = DiskStorage(os.path.join(root, 'env'), os.path.join(root, 'meta'), None if default_tmp else os.path.join(root, 'tmp'))
        out = {}
        problems = []
        try:
            listing = list(st.load())
        except Exception as e:
            return {}, ['load() raised %r' % e]
        for ts, sid in listing:
            try:
                env, att = st.get(sid)
                meta = st.ops.read_meta(sid)
            except Exception as e:
                problems.append('get(%s) raised %r' % (sid, e))
                continue
            k = int(env.sender[1:].split('@')[0])
            body_ok = env.flatten()[1] == b'body %d \xff\r\n' % k
            out[sid] = {'e': k, 'ts': int(ts), 'att': att, 'deliv': list(meta.get('delivered_indexes', [])),
                        'rcpts': [int(r.split('.')[1].split('@')[0]) for r in env.recipients], 'body_ok': body_ok}
        # ---- the restart (C04 o C12 / C01, `restarted_queue_schedules_acknowledged`, `restarted_queue_continues_the_count`): a real
        # Queue over a second fresh DiskStorage on the same directories loads its timetable and is flushed; every recovered message must be
        # handed to the relay exactly once, with the recipients and the attempt counter the storage shows
        if with_queue and not problems:
            import gevent
            from gevent.event import Event
            from slimta.queue import Queue
            from slimta.relay import Relay
            try:
                gevent.get_hub().exception_stream = None
            except Exception:
                pass
            never = Event()
            handed = []

            class Recorder(Relay):
                def attempt(self, envelope, attempts):
                    handed.append((int(envelope.sender[1:].split('@')[0]), [int(r.split('.')[1].split('@')[0]) for r in envelope.recipients], attempts))
                    never.wait()
            st2 = DiskStorage(os.path.join(root, 'env'), os.path.join(root, 'meta'), None if default_tmp else os.path.join(root, 'tmp'))
            q = Queue(st2, Recorder())
            try:
                q._load_all()
                q.flush()
                for _ in range(1500):          # (ends as soon as everything is handed over; the full 3 s only when something is missing)
                    if len(handed) >= len(out):
                        break
                    gevent.sleep(0.002)
                gevent.sleep(0.004)
            except Exception as e:
                problems.append('restarted queue raised %r' % e)
            want = sorted((v['e'], v['rcpts'], v['att']) for v in out.values())
            if sorted(handed) != want:
                problems.append('restarted queue handed %r to the relay, the storage shows %r' % (sorted(handed), want))
            never.set()
        return out, problems
    finally:
        shutil.rmtree(root, ignore_errors=True)


def run_scanwrite(case, model):
    """The start-up scan (`load()`, as Queue._load_all runs it) overlaps writes that are between their two files. Every write that
    returned an id must be found, intact, by a queue started later over the same directories."""
    import gevent
    from slimta.diskstorage import DiskStorage
    root = tempfile.mkdtemp(prefix='verif_c04s_')
    hits = []
    try:
        for d in ('env', 'meta', 'tmp'):
            os.mkdir(os.path.join(root, d))
        st = DiskStorage(os.path.join(root, 'env'), os.path.join(root, 'meta'), os.path.join(root, 'tmp'))
        acked = {}
        for k in range(case['nbefore']):
            acked[st.write(make_env(k, 2), 1000.0 + k)] = k
        real_env, real_meta = st.ops.write_env, st.ops.write_meta
        scans = []

        def scan():
            try:
                scans.append(sorted(i for _, i in st.load()))
            except Exception as e:
                scans.append('raised %r' % e)

        def write_env(id, envelope):
            r = real_env(id, envelope)
            if case['scan_at'] in ('env', 'both'):
                gevent.spawn(scan).join()       # the scan runs while this write has its envelope file but no meta file yet
            return r

        def write_meta(id, meta):
            if case['scan_at'] in ('meta', 'both'):
                gevent.spawn(scan).join()
            return real_meta(id, meta)
        st.ops.write_env, st.ops.write_meta = write_env, write_meta
        import slimta.diskstorage as ds
        real_wp = ds.AioFile._write_piece
        pieces = {'n': 0}

        def wp(self, fd, data, data_len, offset):
            r = real_wp(self, fd, data, data_len, offset)
            pieces['n'] += 1
            if case['scan_at'] == 'midfile' and pieces['n'] % 2 == 1:
                gevent.spawn(scan).join()       # the scan runs while a scratch file of this write is half written
            return r
        ds.AioFile._write_piece = wp
        real_chunk = ds.AioFile.chunk_size
        ds.AioFile.chunk_size = 64
        for k in range(case['nbefore'], case['nbefore'] + case['nwrites']):
            try:
                acked[st.write(make_env(k, 2), 1000.0 + k)] = k
            except Exception as e:
                hits.append(hit('c04.write-raises-during-scan', 'a write failed because a scan ran at the same time', observed=repr(e)))
        files = {}
        for d in ('env', 'meta', 'tmp'):
            for fn in os.listdir(os.path.join(root, d)):
                with open(os.path.join(root, d, fn), 'rb') as f:
                    files[d + '/' + fn] = f.read()
        got, problems = reopen(files)
        for p in problems:
            hits.append(hit('c04.recovery-raises', 'reopening the directories failed', observed=p))
        for sid, k in acked.items():
            gv = got.get(sid)
            if gv is None:
                hits.append(hit('c04.acknowledged-message-missing', 'a message whose write had returned is not found by a queue started later '
                                '(a start-up scan had overlapped the write)', observed={'message': k, 'scans': scans[:3]}))
                break
            if gv['e'] != k or not gv['body_ok'] or gv['att'] != 0 or gv['rcpts'] != [0, 1]:
                hits.append(hit('c04.recovered-state-wrong', 'recovered message differs from what was written', observed={'message': k, 'got': gv}))
                break
        if any(isinstance(x, str) for x in scans):
            hits.append(hit('c04.scan-raises', 'load() raised while a write was in progress', observed=[x for x in scans if isinstance(x, str)][:2]))
    finally:
        try:
            ds.AioFile._write_piece, ds.AioFile.chunk_size = real_wp, real_chunk
        except NameError:
            pass
        shutil.rmtree(root, ignore_errors=True)
    return CaseResult(None, hits, ('scanwrite', case['nbefore'], case['nwrites'], case['scan_at']), ['scan-during-write'])


def run_writefail(case, model):
    """A rewrite of the meta file of an acknowledged message fails half-way with an exception (the disk is full, the greenlet is
    killed) instead of the process dying. The message must still be there afterwards, in its old or its new state."""
    import gevent
    import slimta.diskstorage as ds
    from slimta.diskstorage import DiskStorage
    root = tempfile.mkdtemp(prefix='verif_c04f_')
    hits = []
    real_wp, real_rename, real_chunk = ds.AioFile._write_piece, ds.os.rename, ds.AioFile.chunk_size
    try:
        for d in ('env', 'meta', 'tmp'):
            os.mkdir(os.path.join(root, d))
        st = DiskStorage(os.path.join(root, 'env'), os.path.join(root, 'meta'), os.path.join(root, 'tmp'))
        ids = [st.write(make_env(k, 3), 1000.0 + k) for k in range(case['nmsg'])]
        ds.AioFile.chunk_size = 20
        armed = {'on': True, 'n': 0}

        def boom():
            if case['how'] == 'kill':
                raise gevent.GreenletExit()
            raise OSError(28, 'No space left on device')

        def wp(self, fd, data, data_len, offset):
            if armed['on']:
                armed['n'] += 1
                if (case['fail_at'] == 'chunk' and armed['n'] == 1) or (case['fail_at'] == 'chunk2' and armed['n'] == 2):
                    armed['on'] = False
                    boom()
            return real_wp(self, fd, data, data_len, offset)

        class OsProxy(object):
            def __getattr__(self, name):
                return getattr(os, name)

            def rename(self, a, b):
                if armed['on'] and case['fail_at'] == 'rename':
                    armed['on'] = False
                    boom()
                return real_rename(a, b)
        ds.AioFile._write_piece = wp
        saved_os = ds.os
        ds.os = OsProxy()
        target = ids[0]

        def op():
            if case['op'] == 't':
                st.set_timestamp(target, 2000.0)
            elif case['op'] == 'i':
                st.increment_attempts(target)
            else:
                st.set_recipients_delivered(target, [1])
        g = gevent.spawn(op)
        g.join(3)
        ds.os = saved_os
        ds.AioFile._write_piece = real_wp
        files = {}
        for d in ('env', 'meta'):
            for fn in os.listdir(os.path.join(root, d)):
                with open(os.path.join(root, d, fn), 'rb') as f:
                    files[d + '/' + fn] = f.read()
        got, problems = reopen(files)
        for p in problems:
            hits.append(hit('c04.recovery-raises', 'reopening the directories failed', observed=p))
        for k, sid in enumerate(ids):
            gv = got.get(sid)
            if gv is None:
                hits.append(hit('c04.acknowledged-message-missing', 'an acknowledged message is gone after an update of its meta file failed with an exception',
                                observed={'message': k, 'op': case['op'], 'fail_at': case['fail_at'], 'how': case['how']}))
                break
            old = (1000 + k, 0, [0, 1, 2])
            new = {'t': (2000, 0, [0, 1, 2]), 'i': (1000 + k, 1, [0, 1, 2]), 'd': (1000 + k, 0, [0, 2])}[case['op']] if k == 0 else old
            if (gv['ts'], gv['att'], gv['rcpts']) not in (old, new) or gv['e'] != k or not gv['body_ok']:
                hits.append(hit('c04.recovered-state-wrong', 'recovered message is neither the old nor the new state', observed={'message': k, 'got': gv}, expected=[old, new]))
                break
    finally:
        ds.AioFile._write_piece, ds.AioFile.chunk_size = real_wp, real_chunk
        shutil.rmtree(root, ignore_errors=True)
    return CaseResult(None, hits, ('writefail', case['op'], case['fail_at'], case['how'], case['nmsg']), ['meta-update-fails'])


def run_case(case, model):
    if case.get('kind') == 'writefail':
        return run_writefail(case, model)
    if case.get('kind') == 'scanwrite':
        return run_scanwrite(case, model)
    import gevent
    from slimta.diskstorage import DiskStorage
    ops = case['ops']
    root = tempfile.mkdtemp(prefix='verif_c04_')
    for d in ('env', 'meta', 'tmp'):
        os.mkdir(os.path.join(root, d))
    tr = Tracer(root)
    saved = install(tr)
    ids = {}
    chunks = {}
    errors = []
    saved_tempdir = tempfile.tempdir
    try:
        # every fourth history runs with tmp_dir left at its default (the scratch files are made wherever mkstemp puts them: the
        # system's temporary directory, pointed to a directory of this case so that nothing is left behind)
        if case.get('default_tmp'):
            os.mkdir(os.path.join(root, 'systmp'))
            tempfile.tempdir = os.path.join(root, 'systmp')
        st = DiskStorage(os.path.join(root, 'env'), os.path.join(root, 'meta'), None if case.get('default_tmp') else os.path.join(root, 'tmp'))

        def do(n, op):
            gevent.getcurrent().verif_op = n
            try:
                if op[0] == 'w':
                    ids[op[1]] = st.write(make_env(op[1], op[2]), float(op[3]))
                elif op[0] == 't':
                    st.set_timestamp(ids[op[1]], float(op[2]))
                elif op[0] == 'i':
                    st.increment_attempts(ids[op[1]])
                elif op[0] == 'd':
                    st.set_recipients_delivered(ids[op[1]], set(op[2]))
                elif op[0] == 'r':
                    st.remove(ids[op[1]])
            except Exception as e:
                errors.append((n, repr(e)))
        n = 0
        groups = []
        while n < len(ops):
            grp = [n]
            if case['concurrent'] and n + 1 < len(ops) and ops[n][0] != 'w' and ops[n + 1][0] != 'w' and ops[n][1] != ops[n + 1][1]:
                grp.append(n + 1)
            tr.snap(('before', tuple(grp), 'start'))
            gs = [gevent.spawn(do, k, ops[k]) for k in grp]
            gevent.joinall(gs)
            groups.append(grp)
            n = grp[-1] + 1
    finally:
        uninstall(saved)
        tempfile.tempdir = saved_tempdir
        shutil.rmtree(root, ignore_errors=True)
    # ---- chunk counts per op, for the model
    per_op = {}
    per_op_where = {}
    unmodelled = []
    for tag, files in tr.snaps:
        if tag[0] == 'before':
            continue
        per_op.setdefault(tag[0], []).append(tag[2])
        per_op_where.setdefault(tag[0], []).append(tag[2] + (':' + tag[3] if len(tag) > 3 and tag[3] and tag[2] in ('rename', 'unlink') else ''))
    parts = []
    for n, op in enumerate(ops):
        kinds = per_op.get(n, [])
        dumps = []
        cur = None
        for k in kinds:
            if k == 'create':
                cur = 0
            elif k == 'append':
                if cur is None:
                    unmodelled.append((n, 'append without a temporary file'))
                    cur = 0
                cur += 1
            elif k == 'rename':
                dumps.append(cur if cur is not None else 1)
            elif k == 'open-write':
                unmodelled.append((n, 'file opened for writing in place'))
        c1 = dumps[0] if dumps else 1
        c2 = dumps[1] if len(dumps) > 1 else 1
        if op[0] == 'w':
            parts.append('w:%d:%d:%d:%d:%d' % (op[1], op[1], op[3], c1, c2))
        elif op[0] == 't':
            parts.append('t:%d:%d:%d' % (op[1], op[2], c1))
        elif op[0] == 'i':
            parts.append('i:%d:%d' % (op[1], c1))
        elif op[0] == 'd':
            parts.append('d:%d:%s:%d' % (op[1], '.'.join(map(str, op[2])), c1))
        else:
            parts.append('r:%d' % op[1])
    mres = model.ask('disk trace ' + ';'.join(parts))
    mops = [[pt.strip() for pt in o.split(' | ')] for o in mres.split(' ;; ')]
    # the effects themselves, in order, with the directory each rename / unlink touches (tmp_dir=default: temp files are elsewhere,
    # which the model does not distinguish)
    meff = [o.strip() for o in model.ask('disk effects ' + ';'.join(parts)).split(' ;; ')]
    effect_mismatch = None
    for n, op in enumerate(ops):
        got = ','.join(per_op_where.get(n, [])) or '-'
        want = meff[n] if n < len(meff) else '?'
        if got != want and effect_mismatch is None and not unmodelled:
            effect_mismatch = {'op': 'disk effects', 'operation': op, 'impl': got, 'model': want}
    rev = {v: k for k, v in ids.items()}
    hits = []
    mismatch = None
    evaluated = 0
    # ---- expected state bookkeeping for the monitor: acknowledged messages and their old/new values
    state = {}      # k -> dict(nr, ts, att, gone[list of delivered original positions], removed)
    snaps_by_group = []
    cur = None
    for tag, files in tr.snaps:
        if tag[0] == 'before':
            cur = {'grp': tag[1], 'snaps': [(dict((k, 0) for k in tag[1]), files)]}
            snaps_by_group.append(cur)
            prog = dict((k, 0) for k in tag[1])
        else:
            prog = dict(cur['snaps'][-1][0])
            prog[tag[0]] = tag[1]
            cur['snaps'].append((prog, files))

    def apply_spec(st8, op):
        k = op[1]
        if op[0] == 'w':
            st8[k] = {'rc': list(range(op[2])), 'ts': op[3], 'att': 0}
        elif k in st8:
            if op[0] == 't':
                st8[k]['ts'] = op[2]
            elif op[0] == 'i':
                st8[k]['att'] += 1
            elif op[0] == 'd':
                rc = st8[k]['rc']
                for i in sorted(op[2], reverse=True):
                    del rc[i]
            elif op[0] == 'r':
                del st8[k]
    import copy
    for g in snaps_by_group:
        before = copy.deepcopy(state)
        for k in g['grp']:
            apply_spec(state, ops[k])
        after = copy.deepcopy(state)
        for prog, files in g['snaps']:
            evaluated += 1
            got, problems = reopen(files, case.get('default_tmp', False), with_queue=True)
            gotk = {rev.get(sid, sid): v for sid, v in got.items()}
            # correspondence: per in-progress op, recover(id) of the model at this prefix
            for k in g['grp']:
                mid = ops[k][1]
                pts = mops[k] if k < len(mops) else []
                n_eff = prog[k]
                if n_eff < len(pts):
                    want = [x for x in pts[n_eff].split(',') if x.split(':')[0] == str(mid)]
                    w = want[0] if want else None
                    gv = gotk.get(mid)
                    g_s = None if gv is None else '%d:%d:%d:%d:%s' % (mid, gv['e'], gv['ts'], gv['att'], '.'.join(map(str, gv['deliv'])) or '-')
                    if g_s != w and mismatch is None:
                        mismatch = {'op': 'disk trace', 'in_progress': ops[k], 'effects_done': n_eff, 'impl': g_s, 'model': w}
            # monitor
            for p in problems:
                if p.startswith('restarted queue'):
                    hits.append(hit('c04.restarted-queue-differs-from-storage', 'a Queue started on the directories after the crash does not hand every recovered '
                                    'message to the relay exactly once with the recipients and attempt counter the storage shows', observed=p))
                else:
                    hits.append(hit('c04.recovery-raises', 'reopening the crash snapshot failed', observed=p))
            in_progress_ids = {ops[k][1] for k in g['grp']}
            for k, b in before.items():
                removing = any(ops[x][0] == 'r' and ops[x][1] == k for x in g['grp'])
                if removing:
                    continue
                gv = gotk.get(k)
                a = after.get(k, b)
                if gv is None:
                    hits.append(hit('c04.acknowledged-message-missing', 'an acknowledged, live message is not found after the crash',
                                    observed={'message': k, 'in_progress': [ops[x] for x in g['grp']], 'effects_done': prog}))
                    continue
                okvals = [(b['rc'], b['ts'], b['att']), (a['rc'], a['ts'], a['att'])]
                if k not in in_progress_ids:
                    okvals = okvals[:1]
                if (gv['rcpts'], gv['ts'], gv['att']) not in okvals or gv['e'] != k or not gv['body_ok']:
                    hits.append(hit('c04.recovered-state-wrong', 'recovered message is neither the old nor the new state',
                                    observed={'message': k, 'got': gv, 'in_progress': [ops[x] for x in g['grp']]}, expected=okvals))
            if hits:
                break
        if hits:
            break
    if errors and mismatch is None:
        mismatch = {'op': 'storage op raised', 'errors': errors[:3]}
    if effect_mismatch and mismatch is None:
        mismatch = effect_mismatch
    if unmodelled and mismatch is None:
        mismatch = {'op': 'disk trace', 'impl': 'file-system effects the model does not have: %r' % unmodelled[:3], 'model': 'every write goes create / append* / rename'}
    tags = ['concurrent' if case['concurrent'] else 'sequential', 'tmp_dir=default' if case.get('default_tmp') else 'tmp_dir=given', 'ops=%d' % len(ops), 'snapshots<=30' if evaluated <= 30 else 'snapshots<=60' if evaluated <= 60 else 'snapshots>60']
    res = CaseResult(mismatch, hits, (repr(ops), case['concurrent']), tags)
    return res
