"""C18 — PROXY protocol headers are parsed exactly and never over-read.

Implementation: the real ProxyProtocolV1 / V2 / ProxyProtocol mix-ins on a recording EdgeServer subclass, over a
fake socket whose recv_into() follows a scripted short-read pattern.
Model: `proxy v1|v2|auto` of the Lean driver (Model/Proxy.lean); inet_pton/inet_ntop results ride on the op line.
"""
import socket as _socket
import struct

from harness.core import CaseResult, hit, hx, rng_for

RULE = ('header (+ payload) streams: 40+ seed headers (TCP4/TCP6/UNKNOWN v1; INET/INET6/UNIX/UNSPEC, PROXY/LOCAL, '
        'TLV tails v2) with addresses/ports at field boundaries, every single-byte corruption (several replacement '
        'bytes) and every truncation of each seed, all v2 length fields 0..300, random garbage; each under several '
        'short-read patterns of recv_into, through the v1, v2 and auto-detecting mix-ins. distinct = distinct '
        '(mode, stream, short-read pattern); non-trivial = non-empty stream.')

BUDGET_S = {'quick': 150, 'thorough': 1200}
SIG = b'\r\n\r\n\x00\r\nQUIT\n'


class PPSock(object):
    def __init__(self, stream, short, eof=True, yielding=False):
        self.stream = bytes(stream)
        self.pos = 0
        self.short = list(short)
        self.closed = False
        self.yielding = yielding

    def fileno(self):
        return -1

    def recv_into(self, buf, n=0):
        if self.yielding:
            import gevent
            gevent.sleep(0)       # a socket that has to wait for its bytes: other connections run meanwhile
        if n <= 0:
            n = len(buf)
        avail = len(self.stream) - self.pos
        if avail == 0:
            return 0
        lim = n
        if self.short:
            lim = max(1, min(self.short.pop(0), n))
        k = min(lim, avail)
        buf[0:k] = self.stream[self.pos:self.pos + k]
        self.pos += k
        return k

    def close(self):
        self.closed = True


_EDGES = {}


def edge_for(mode):
    if mode in _EDGES:
        return _EDGES[mode]
    from slimta.edge import EdgeServer
    from slimta.util.proxyproto import ProxyProtocol, ProxyProtocolV1, ProxyProtocolV2

    class Rec(EdgeServer):
        def handle(self, sock, addr):
            self.seen.append((sock, addr))

    e = Rec(None, None)
    e.seen = []
    {'v1': ProxyProtocolV1, 'v2': ProxyProtocolV2, 'auto': ProxyProtocol}[mode].mixin(e)
    _EDGES[mode] = e
    return e


def norm_ip(fam, text):
    try:
        f = _socket.AF_INET if fam == '4' else _socket.AF_INET6
        return _socket.inet_ntop(f, _socket.inet_pton(f, text.decode('ascii'))).encode()
    except (UnicodeDecodeError, OSError, ValueError):
        return None


def ip_table(stream):
    head = stream[:107]
    toks = set()
    for part in head.replace(b'\r\n', b' ').split(b' '):
        if part and len(part) <= 60:
            toks.add(part)
    items = []
    for t in sorted(toks):
        for fam in '46':
            r = norm_ip(fam, t)
            items.append('%s%s=%s' % (fam, t.hex(), '!' if r is None else r.hex()))
    return ';'.join(items) if items else '-'


def ntop6_table(stream):
    items = []
    for off in (16, 32):
        b = stream[off:off + 16]
        if len(b) == 16:
            items.append('%s=%s' % (b.hex(), _socket.inet_ntop(_socket.AF_INET6, b).encode().hex()))
    return ';'.join(items) if items else '-'


def v1(fam, src, dst, sp, dp):
    return ('PROXY %s %s %s %s %s\r\n' % (fam, src, dst, sp, dp)).encode()


def v2(cmd, fam, addr, tlv=b'', ver=0x20, length=None):
    data = addr + tlv
    ln = len(data) if length is None else length
    return SIG + bytes([ver | cmd, fam]) + struct.pack('!H', ln) + data


def a4(s, d, sp, dp):
    return _socket.inet_aton(s) + _socket.inet_aton(d) + struct.pack('!HH', sp, dp)


def a6(s, d, sp, dp):
    return _socket.inet_pton(_socket.AF_INET6, s) + _socket.inet_pton(_socket.AF_INET6, d) + struct.pack('!HH', sp, dp)


def aunix(s, d):
    return s.ljust(108, b'\x00') + d.ljust(108, b'\x00')


def seeds():
    out = []
    for sp, dp in [(0, 0), (1, 65535), (65535, 1), (25, 587), (65536, 1), (80, 70000), ('080', '0000025'), ('99999', '1')]:
        out.append(('v1', v1('TCP4', '1.2.3.4', '255.255.255.255', sp, dp)))
    out.append(('v1', v1('TCP4', '0.0.0.0', '10.0.0.1', 1, 2)))
    out.append(('v1', v1('TCP4', '256.1.1.1', '10.0.0.1', 1, 2)))
    out.append(('v1', v1('TCP4', '01.2.3.4', '10.0.0.1', 1, 2)))
    out.append(('v1', v1('TCP6', '::1', '::', 1, 2)))
    out.append(('v1', v1('TCP6', 'ffff:ffff:ffff:ffff:ffff:ffff:ffff:ffff', 'ffff:ffff:ffff:ffff:ffff:ffff:ffff:ffff', 65535, 65535)))
    out.append(('v1', v1('TCP6', '0:0:0:0:0:0:0:1', '::ffff:1.2.3.4', 10, 20)))
    out.append(('v1', v1('TCP6', '1.2.3.4', '::1', 10, 20)))
    out.append(('v1', v1('TCP4', '::1', '1.2.3.4', 10, 20)))
    out.append(('v1', b'PROXY UNKNOWN\r\n'))
    out.append(('v1', b'PROXY UNKNOWN ffff::1 ffff::2 65535 65535\r\n'))
    out.append(('v1', b'PROXY UNKNOWN ' + b'x' * 91 + b'\r\n'))          # exactly 107
    out.append(('v1', b'PROXY UNKNOWN ' + b'x' * 92 + b'\r\n'))          # 108: too long
    # 107 bytes of a line whose fields would all be valid (a zero-padded port) and whose CRLF comes only afterwards: the header is
    # over-long, not valid (the model mutant `proxy-v1-needs-no-crlf` survived the campaign until this line existed)
    pre = b'PROXY TCP4 1.2.3.4 5.6.7.8 1 '
    out.append(('v1', pre + b'0' * (107 - len(pre) - 2) + b'25\r\n'))
    out.append(('v1', pre + b'0' * (105 - len(pre) - 2) + b'25\r\n'))      # the same within the limit: valid, port 25
    out.append(('v1', b'PROXY TCP4 1.2.3.4 5.6.7.8 1 2 3\r\n'))
    out.append(('v1', b'PROXY TCP4  1.2.3.4 5.6.7.8 1 2\r\n'))
    out.append(('v1', b'PROXY \r\n'))
    out.append(('v1', b'PROXY TCP5 1.2.3.4 5.6.7.8 1 2\r\n'))
    out.append(('v1', b'PROXY TCP4 1.2.3.4 5.6.7.8 1 2\r\r\n'))
    out.append(('v1', b'PROXY TCP4 1.2.3.4\r5.6.7.8 1 2\r\n'))
    for cmd in (1, 0, 2, 15):
        out.append(('v2', v2(cmd, 0x11, a4('1.2.3.4', '5.6.7.8', 1, 65535))))
    out.append(('v2', v2(1, 0x12, a4('0.0.0.0', '255.255.255.255', 0, 0))))
    out.append(('v2', v2(1, 0x21, a6('::1', 'ffff::2', 25, 587))))
    out.append(('v2', v2(0, 0x21, a6('::1', 'ffff::2', 25, 587))))
    out.append(('v2', v2(1, 0x31, aunix(b'/tmp/a', b'/tmp/b'))))
    out.append(('v2', v2(1, 0x31, aunix(b'x' * 108, b''))))
    out.append(('v2', v2(1, 0x00, b'')))
    out.append(('v2', v2(0, 0x00, b'')))
    out.append(('v2', v2(1, 0x00, b'', tlv=b'\x01\x00\x02hi')))
    out.append(('v2', v2(1, 0x11, a4('1.2.3.4', '5.6.7.8', 1, 2), tlv=b'\x04\x00\x03abc')))
    out.append(('v2', v2(1, 0x41, b'12345678')))
    out.append(('v2', v2(1, 0x11, a4('1.2.3.4', '5.6.7.8', 1, 2), ver=0x10)))
    out.append(('v2', v2(1, 0x11, a4('1.2.3.4', '5.6.7.8', 1, 2)[:11])))
    out.append(('v2', v2(1, 0x21, a6('::1', '::2', 1, 2)[:35])))
    out.append(('v2', v2(1, 0x31, aunix(b'a', b'b')[:215])))
    return out


PAYLOADS = [b'', b'EHLO x\r\n', b'\r\n', b'\n', b'\x00' * 5, b'PROXY TCP4 9.9.9.9 9.9.9.9 9 9\r\n']
REPL = [0x00, 0x20, 0x0d, 0x0a, 0x2b, 0x5f, 0x09, 0x30, 0x39, 0x3a, 0xff, 0x2d]


def short_patterns(rng, n, tier):
    pats = [[], [1] * (n + 4), [1, 2] * (n // 2 + 4), [7, 1, 1, 300, 1]]
    if tier == 'thorough':
        pats += [[3] * (n + 4), [8, 1] * (n // 2 + 4), [2] * (n + 4)]
    pats.append([rng.randint(1, 9) for _ in range(n + 4)])
    return pats


def cases(tier, seed, phase):
    idx = 0
    sl = seeds()
    for si, (ver, hdr) in enumerate(sl):
        streams = [('seed', hdr)]
        step = 1 if (tier == 'thorough' or len(hdr) <= 60) else 3
        for i in range(0, len(hdr), step):
            streams.append(('trunc', hdr[:i]))
        for i in range(len(hdr)):
            reps = REPL if tier == 'thorough' else [REPL[(i + si + k) % len(REPL)] for k in range(3)]
            if len(hdr) > 60 and tier == 'quick' and i % 4 and i < len(hdr) - 24:
                continue
            for r in reps:
                if hdr[i] != r:
                    streams.append(('corrupt', hdr[:i] + bytes([r]) + hdr[i + 1:]))
        for what, st in streams:
            idx += 1
            rng = rng_for(seed, 'c18', idx)
            payload = PAYLOADS[idx % len(PAYLOADS)] if what != 'trunc' else b''
            full = st + payload
            pats = short_patterns(rng, len(full), tier)
            if what != 'seed':
                pats = [pats[idx % len(pats)], pats[-1]]
            for mode in (ver, 'auto'):
                for pat in pats:
                    yield {'mode': mode, 'stream': full.hex(), 'hdrlen': len(st), 'short': pat[:len(full) + 4], 'what': what}
    # all v2 length fields
    for ln in range(0, 301 if tier == 'quick' else 700):
        idx += 1
        rng = rng_for(seed, 'c18len', ln)
        fam = [0x11, 0x21, 0x31, 0x00][ln % 4]
        body = bytes(rng.randrange(256) for _ in range(ln))
        hdr = v2(1, fam, body)
        for extra in (b'', b'tail'):
            for mode in ('v2', 'auto'):
                yield {'mode': mode, 'stream': (hdr + extra).hex(), 'hdrlen': len(hdr), 'short': [rng.randint(1, 40) for _ in range(30)], 'what': 'v2len'}
        # declared length longer than what arrives (truncated)
        hdr2 = v2(1, fam, body, length=ln + 5)
        yield {'mode': 'v2', 'stream': hdr2.hex(), 'hdrlen': len(hdr2), 'short': [], 'what': 'v2len-trunc'}
    # two connections handled at the same time, each read yielding to the other: every connection must come out as it does alone
    good = [(ver, hdr) for ver, hdr in sl]
    for j in range(400 if tier == 'quick' else 6000):
        rng = rng_for(seed, 'c18pair', j)
        ver, h1 = good[rng.randrange(len(good))]
        same = [h for v, h in good if v == ver and len(h) == len(h1) and h != h1]
        if ver == 'v2' and rng.random() < 0.6:
            # same shape, other addresses
            fam = rng.choice([0x11, 0x21])
            mk = (lambda: v2(1, 0x11, a4('%d.%d.%d.%d' % tuple(rng.randrange(256) for _ in range(4)), '5.6.7.8', rng.randrange(65536), 25))) \
                if fam == 0x11 else (lambda: v2(1, 0x21, a6('::%x' % rng.randrange(1, 65536), 'ffff::2', rng.randrange(65536), 587)))
            h1, h2 = mk(), mk()
        elif same and rng.random() < 0.7:
            h2 = same[rng.randrange(len(same))]
        else:
            h2 = good[rng.randrange(len(good))][1] if rng.random() < 0.5 else h1
            if (h2[:6] == b'PROXY ') != (ver == 'v1'):
                h2 = h1
        p1, p2 = PAYLOADS[j % len(PAYLOADS)], PAYLOADS[(j // 7) % len(PAYLOADS)]
        mode = rng.choice([ver, 'auto'])
        if mode == 'auto' and rng.random() < 0.5:
            # the auto-detecting mix-in with connections of different kinds next to each other: v1, v2, neither
            other = [h for v, h in good if v != ver] + [b'GARBAGE!' + b'x' * 20, b'\r\n\r\n\x00\r\nQUIT\n']
            h2 = other[rng.randrange(len(other))]
        yield {'mode': mode, 'what': 'pair', 'hdrlen': len(h1),
               'stream': (h1 + p1).hex(), 'short': [rng.randint(1, 9) for _ in range(len(h1) + 8)],
               'stream2': (h2 + p2).hex(), 'short2': [rng.randint(1, 9) for _ in range(len(h2) + 8)]}
    # random garbage
    for j in range(3000 if tier == 'quick' else 60000):
        rng = rng_for(seed, 'c18g', j)
        n = rng.choice([0, 1, 7, 8, 9, 15, 16, 17, 30, 107, 108, 150])
        pool = [b'PROXY ', b'TCP4 ', b'TCP6 ', b'UNKNOWN', b' ', b'\r\n', b'\r', b'1.2.3.4', b'::1', b'65535', SIG[:8], SIG,
                bytes([rng.randrange(256)]), b'\x21\x11\x00\x0c', b'\x20\x00\x00\x00']
        out = b''
        while len(out) < n:
            out += rng.choice(pool)
        st = out[:n] if rng.random() < 0.5 else out
        yield {'mode': rng.choice(['v1', 'v2', 'auto']), 'stream': st.hex(), 'hdrlen': 0,
               'short': [rng.randint(1, 9) for _ in range(rng.choice([0, 200]))], 'what': 'garbage'}


def show_addr(a):
    if a == (None, None):
        return 'none'
    if isinstance(a, bytes):
        return 'unix:%s' % hx(a)
    if isinstance(a, tuple) and len(a) == 2 and isinstance(a[0], str):
        return 'ip:%s:%d' % (hx(a[0].encode()), a[1])
    return 'other:%r' % (a,)


def impl_run(mode, stream, short):
    e = edge_for(mode)
    del e.seen[:]
    sock = PPSock(stream, short)
    try:
        e.handle(sock, ('peer', 1))
    except Exception as exc:
        return 'escape:%s' % type(exc).__name__, sock.pos
    if not e.seen:
        return 'drop', sock.pos
    return 'proceed ' + show_addr(e.seen[0][1]), sock.pos


def impl_run_pair(mode, items):
    """Several connections handled concurrently (one greenlet each, every read yields): [(stream, short)] -> [(out, consumed)]"""
    import gevent
    e = edge_for(mode)
    del e.seen[:]
    socks = [PPSock(st, sh, yielding=True) for st, sh in items]
    escapes = {}

    def go(i):
        try:
            e.handle(socks[i], ('peer', i))
        except Exception as exc:
            escapes[i] = 'escape:%s' % type(exc).__name__
    gs = [gevent.spawn(go, i) for i in range(len(socks))]
    gevent.joinall(gs, timeout=10)
    res = []
    for i, sk in enumerate(socks):
        if i in escapes:
            res.append((escapes[i], sk.pos))
            continue
        mine = [a for s_, a in e.seen if s_ is sk]
        res.append(('proceed ' + show_addr(mine[0]), sk.pos) if mine else ('drop', sk.pos))
    return res


# ---- independent specification of a well-formed header (the PROXY protocol grammar), for the monitor

def spec_v1(line):
    """line includes CRLF. Returns ('ok', src) / None if not well-formed."""
    if not (line.startswith(b'PROXY ') and line.endswith(b'\r\n') and len(line) <= 107):
        return None
    body = line[6:-2]
    if b'\r\n' in line[:-2] or b'\n' in body or b'\r' in body:
        return None
    if body == b'UNKNOWN' or body.startswith(b'UNKNOWN '):
        return ('ok', 'none')
    parts = body.split(b' ')
    if len(parts) != 5 or parts[0] not in (b'TCP4', b'TCP6'):
        return None
    fam = '4' if parts[0] == b'TCP4' else '6'
    s, d = norm_ip(fam, parts[1]), norm_ip(fam, parts[2])
    if s is None or d is None:
        return None
    lenient = False
    for p in parts[3:5]:
        if not (len(p) >= 1 and p.isdigit() and int(p) <= 65535):
            return None
        if len(p) > 1 and p[0:1] == b'0':
            lenient = True            # leading zeros: the grammar is silent; either outcome is tolerated
    if lenient:
        return 'lenient'
    return ('ok', 'ip:%s:%d' % (hx(s), int(parts[3])))


def spec_v2(stream):
    """Returns ('ok', outcome, header_len) / ('malformed', max_consumed) for a v2 stream."""
    if len(stream) < 16:
        return ('malformed', len(stream))
    if stream[:12] != SIG or stream[12] & 0xf0 != 0x20 or (stream[12] & 0x0f) not in (0, 1):
        return ('malformed', 16)
    ln = struct.unpack('!H', stream[14:16])[0]
    if len(stream) < 16 + ln:
        return ('malformed', len(stream))
    ad = stream[16:16 + ln]
    fam = stream[13] & 0xf0
    need = {0x10: 12, 0x20: 36, 0x30: 216}.get(fam, 0)
    if ln < need:
        return ('malformed', 16 + ln)
    if fam == 0x10:
        a = 'ip:%s:%d' % (hx(_socket.inet_ntop(_socket.AF_INET, ad[:4]).encode()), struct.unpack('!H', ad[8:10])[0])
    elif fam == 0x20:
        a = 'ip:%s:%d' % (hx(_socket.inet_ntop(_socket.AF_INET6, ad[:16]).encode()), struct.unpack('!H', ad[32:34])[0])
    elif fam == 0x30:
        a = 'unix:%s' % hx(ad[:108].rstrip(b'\x00'))
    else:
        a = 'none'
    if stream[12] & 0x0f == 0:
        return ('ok', 'drop', 16 + ln)
    return ('ok', 'proceed ' + a, 16 + ln)


def run_case(case, model):
    if case.get('what') == 'pair':
        return run_pair(case, model)
    return run_one(case, model, None)


def run_pair(case, model):
    a = (bytes.fromhex(case['stream']), case['short'])
    b = (bytes.fromhex(case['stream2']), case['short2'])
    res = impl_run_pair(case['mode'], [a, b])
    r1 = run_one({'mode': case['mode'], 'stream': case['stream'], 'short': case['short'], 'what': 'pair'}, model, res[0])
    r2 = run_one({'mode': case['mode'], 'stream': case['stream2'], 'short': case['short2'], 'what': 'pair'}, model, res[1])
    mismatch = r1.mismatch or r2.mismatch
    if mismatch:
        mismatch = dict(mismatch, concurrent_with=(case['stream2'] if r1.mismatch else case['stream'])[:80])
    key = (case['mode'], case['stream'], tuple(case['short']), case['stream2'], tuple(case['short2']))
    return CaseResult(mismatch, r1.hits + r2.hits, key, sorted(set(r1.tags + r2.tags)))


def run_one(case, model, given):
    stream = bytes.fromhex(case['stream'])
    mode = case['mode']
    short = case['short']
    out, consumed = given if given is not None else impl_run(mode, stream, short)
    canon = '%s %d' % (out, consumed)
    mres = model.ask('proxy %s %s %s %s %s' % (mode, hx(stream), ','.join(map(str, short)) if short else '-',
                                              ip_table(stream), ntop6_table(stream)))
    mismatch = None
    if canon != mres:
        mismatch = {'op': 'proxy ' + mode, 'impl': canon, 'model': mres}
    hits = []
    # ---- monitor
    if out.startswith('escape:'):
        hits.append(hit('c18.exception-escapes.' + out.split(':')[1], 'an exception other than the invalid-address path escaped handle()',
                        observed=canon, expected='proceed none | drop'))
    eff = mode
    if mode == 'auto':
        eff = 'v1' if stream[:6] == b'PROXY ' else 'v2' if stream[:8] == SIG[:8] else 'neither'
    if eff == 'v1':
        if consumed > 107:
            hits.append(hit('c18.v1-overread-107', 'more than 107 bytes consumed for a v1 header', observed=consumed, expected='<= 107'))
        eol = stream.find(b'\r\n')
        j = eol + 2 if 0 <= eol and eol + 2 <= 107 else -1
        sp = spec_v1(stream[:j]) if j > 0 else None
        if sp == 'lenient':
            pass
        elif sp is not None:
            want = 'proceed ' + sp[1]
            if out != want:
                hits.append(hit('c18.v1-wellformed-wrong-address', 'well-formed v1 header not parsed to its source address',
                                observed=out, expected=want))
            elif consumed != j:
                hits.append(hit('c18.v1-wellformed-consumption', 'well-formed v1 header: payload bytes consumed',
                                observed=consumed, expected=j))
        elif out not in ('proceed none',) and not out.startswith('escape:'):
            hits.append(hit('c18.v1-malformed-accepted', 'malformed v1 header did not yield the invalid address',
                            observed=canon, expected='proceed none'))
    elif eff == 'v2':
        sp = spec_v2(stream)
        if sp[0] == 'ok':
            if out != sp[1]:
                hits.append(hit('c18.v2-wellformed-wrong-result', 'well-formed v2 header not parsed to its source address / LOCAL not dropped',
                                observed=out, expected=sp[1]))
            elif consumed != sp[2]:
                hits.append(hit('c18.v2-wellformed-consumption', 'well-formed v2 header: consumed bytes differ from 16 + declared length',
                                observed=consumed, expected=sp[2]))
        else:
            if out != 'proceed none' and not out.startswith('escape:'):
                hits.append(hit('c18.v2-malformed-accepted', 'malformed v2 header did not yield the invalid address',
                                observed=canon, expected='proceed none'))
            if consumed > sp[1]:
                hits.append(hit('c18.v2-overread', 'more than 16 + declared length consumed', observed=consumed, expected='<= %d' % sp[1]))
    else:
        if out != 'proceed none' and not out.startswith('escape:'):
            hits.append(hit('c18.auto-garbage-accepted', 'stream with neither signature accepted', observed=canon, expected='proceed none'))
        if consumed > 8:
            hits.append(hit('c18.auto-overread', 'more than the 8 peeked bytes consumed on an unknown signature', observed=consumed, expected='<= 8'))
    tags = [mode, case['what'], 'short' if short else 'full-reads', out.split(' ')[0].split(':')[0]]
    key = (mode, case['stream'], tuple(short)) if stream else None
    return CaseResult(mismatch, hits, key, tags)
