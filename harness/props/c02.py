"""C02 — an edge acknowledges a message only after custody of every recipient is taken.

Implementation: the real SmtpEdge (SmtpSession + smtp.Server, driven by a real client socket on a socketpair) and the real
WsgiEdge (called as a WSGI app, and through its pywsgi server on loopback) in front of the real Queue (with RecipientDomainSplit,
over a DictStorage whose k-th write fails / is slow) or the real ProxyQueue (over a relay with scripted results). The reply the
client receives and the storage contents at that instant are observed. Model: `edge queue|proxy` of the Lean driver (Model/Edge.lean).
"""
import io
import itertools

from harness.core import CaseResult, hit, rng_for

RULE = ('edge {smtp, wsgi-call, wsgi-loopback} x queue {Queue + RecipientDomainSplit with n = 1..4 envelopes, ProxyQueue}; Queue: every vector of write '
        'outcomes over {ok, QueueError, QueueError carrying a 4xx / 5xx reply, other exception, gevent.Timeout} for n <= 3 and single deviations for n = 4, plus a slow '
        '(gated) write at each position; ProxyQueue: relay result in {None, Reply, mapping / sequence with every position failing 4xx / 5xx or none, '
        'raised Permanent / Transient}; one enqueue call end to end against Model/Ingress.lean: random chains of the built-in policies (split, domain split, forwarding rule sets, header policies, peel) x 1-6 recipients from the C16 pool x failing writes at random positions x relay present / absent x null / non-null sender x {smtp, wsgi}. distinct = distinct case descriptor; non-trivial = n >= 2 or a failure.')
BUDGET_S = {'quick': 170, 'thorough': 900}
WRITES = ['ok', 'qe', 'qe452', 'qe552', 'exc', 'tmo']


def cases(tier, seed, phase):
    edges = ['smtp', 'wsgi']
    for edge in edges:
        for n in (1, 2, 3):
            for ws in itertools.product(WRITES, repeat=n):
                yield {'edge': edge, 'kind': 'queue', 'writes': list(ws), 'slow': None}
        for k in range(4):
            for w in WRITES[1:]:
                ws = ['ok'] * 4
                ws[k] = w
                yield {'edge': edge, 'kind': 'queue', 'writes': ws, 'slow': None}
        for n in (1, 2, 3):
            for k in range(n):
                for fail in (None, n - 1):
                    ws = ['ok'] * n
                    if fail is not None and fail != k:
                        ws[fail] = 'qe'
                    yield {'edge': edge, 'kind': 'queue', 'writes': ws, 'slow': k}
        # queue policies written the other ways QueuePolicy.apply documents ("return or generate an iterable"): a generator, an
        # iterator, a tuple; a pass-through generator in front of the domain split. (On this tree the envelopes a generator yields
        # skip the later policies — one envelope with every recipient is written, which is custody all the same — and a generator
        # that yields nothing makes the edges answer 421 / 500 with nothing stored: not what the policy documentation promises,
        # but no success reply without custody either; see DESIGN §9.4, observations. So the pass-through cases have no failing
        # write, and there is no empty-generator case.)
        for pol in ('gen', 'iter', 'tuple', 'gen-pass'):
            for ws in (['ok'], ['ok', 'ok'], ['ok', 'ok', 'ok'], ['ok', 'qe'], ['qe452', 'ok'], ['ok', 'exc', 'ok']):
                if pol == 'gen-pass' and any(w != 'ok' for w in ws):
                    continue
                yield {'edge': edge, 'kind': 'queue', 'writes': ws, 'slow': None, 'policy': pol}
        for ro in ['whole', 'reply', 'raise550', 'raise451', 'raise535', 'crash-reset', 'crash-value']:      # (535: the WSGI edge answers 401)
            yield {'edge': edge, 'kind': 'proxy', 'relay': ro, 'n': 2}
        for n in (1, 2, 3):
            for shape in ('map', 'seq'):
                for vec in itertools.product(['ok', '550', '451'], repeat=n):
                    yield {'edge': edge, 'kind': 'proxy', 'relay': shape + ':' + '.'.join(vec), 'n': n}
    # through the real pywsgi server
    for ws in (['ok', 'ok'], ['ok', 'qe'], ['qe552'], ['ok', 'exc']):
        yield {'edge': 'wsgi-loopback', 'kind': 'queue', 'writes': ws, 'slow': None}
    yield {'edge': 'wsgi-loopback', 'kind': 'proxy', 'relay': 'map:ok.550', 'n': 2}
    for refuse in ('none', 'uri', 'verb', 'ctype', 'ehlo', 'sender', 'rcpt', 'custom'):
        for validators in (True, False):
            for uri in (True, False):
                yield {'kind': 'wsgi-gate', 'edge': 'wsgi', 'refuse': refuse, 'validators': validators, 'uri': uri}
    # one enqueue call end to end (Model/Ingress.lean): policy chain x recipients x write outcomes x relay, both edges
    from harness.props import c16
    ing_tokens = ['S', 'D', 'D', 'F0.1', 'F2.3', 'F5.2.1', 'F6.1', 'A', 'R', 'P']
    for j in range(400 if tier == 'quick' else 6000):
        rng = rng_for(seed, 'c02i', j)
        chain = [rng.choice(ing_tokens) for _ in range(rng.choice([1, 1, 2, 2, 3, 4]))]
        rl = [rng.choice(c16.RCPT_POOL) for _ in range(rng.choice([1, 2, 3, 3, 4, 6]))]
        bad = rng.choice([None, None, 'qe', 'qe452', 'qe552', 'exc'])
        writes = {}
        if bad:
            writes[rng.randrange(0, 4)] = bad
            if rng.random() < 0.3:
                writes[rng.randrange(0, 6)] = rng.choice(['qe', 'exc'])
        yield {'kind': 'ingress', 'edge': rng.choice(['smtp', 'wsgi']), 'chain': chain, 'rcpts': rl, 'writes': writes,
               'nonnull': rng.random() < 0.8, 'relay': rng.random() < 0.7}
    # edge -> ProxyQueue -> real StaticSmtpRelay / StaticLmtpRelay -> a scripted next hop (the scripts of C11)
    from harness.props import c11
    hop = [c for c in c11.cases(tier, seed, phase) if c.get('kind') == 'smtp' and 'second' not in c and not c.get('utf8addr') and not c.get('body8bit')
           and not c.get('dupaddr') and 'stall' not in c['dev'].values() and c.get('connect', 'ok') != 'timeout']
    rng = rng_for(seed, 'c02h', 0)
    rng.shuffle(hop)
    for k, c in enumerate(hop[:200 if tier == 'quick' else 3000]):
        yield {'kind': 'proxyhop', 'edge': 'smtp' if k % 2 else 'wsgi', 'script': c}
    # HttpRelay (sending host) -> pywsgi WsgiEdge -> Queue over a store whose k-th write fails (receiving host)
    for n in (1, 2, 3):
        for ws in itertools.product(['ok', 'qe', 'qe452', 'qe552', 'exc'], repeat=n):
            if tier == 'quick' and n == 3 and sum(w != 'ok' for w in ws) > 1:
                continue
            yield {'kind': 'httphop', 'edge': 'wsgi-loopback', 'writes': list(ws)}
            yield {'kind': 'smtphop', 'edge': 'smtp', 'writes': list(ws)}
    for j in range(30 if tier == 'quick' else 600):
        rng = rng_for(seed, 'c02c', j)
        yield {'kind': 'concurrent', 'edge': 'smtp', 'nclients': rng.choice([2, 2, 3]), 'ndomains': rng.choice([1, 2, 3]),
               'chain': rng.choice([['Y', 'D'], ['D', 'Y'], ['Y'], ['Y', 'D', 'Y']]), 'delays': [rng.choice([0, 0.002, 0.005, 0.01]) for _ in range(12)]}


def make_queue(case, state):
    import gevent
    from gevent.event import Event
    from slimta.queue import Queue, QueueError
    from slimta.queue.dict import DictStorage
    from slimta.queue.proxy import ProxyQueue
    from slimta.policy.split import RecipientDomainSplit
    from slimta.relay import Relay, PermanentRelayError, TransientRelayError
    from slimta.smtp.reply import Reply
    if case['kind'] == 'queue':
        gate = Event()
        state['gate'] = gate
        state['write_done'] = []

        class Store(DictStorage):
            n = 0

            def write(self, envelope, timestamp):
                k = Store.n
                Store.n += 1
                w = case['writes'][k] if k < len(case['writes']) else 'ok'
                if case.get('slow') == k:
                    gate.wait()
                try:
                    if w == 'ok':
                        return DictStorage.write(self, envelope, timestamp)
                    if w == 'exc':
                        raise RuntimeError('disk on fire')
                    if w == 'tmo':
                        raise gevent.Timeout(1)          # a storage that bounds its own I/O: not an Exception subclass
                    e = QueueError('cannot write')
                    if w == 'qe452':
                        e.reply = Reply('452', '4.3.1 Insufficient system storage')
                    elif w == 'qe552':
                        e.reply = Reply('552', '5.3.4 Too big for the queue')
                    raise e
                finally:
                    state['write_done'].append(k)
        store = Store()
        q = Queue(store, relay=None)
        from slimta.policy import QueuePolicy
        split = RecipientDomainSplit()

        class GenSplit(QueuePolicy):
            def apply(self, env):
                for e in split.apply(env) or [env]:
                    yield e

        class IterSplit(QueuePolicy):
            def apply(self, env):
                r = split.apply(env)
                return iter(r) if r else None

        class TupleSplit(QueuePolicy):
            def apply(self, env):
                return tuple(split.apply(env) or ())

        class GenNone(QueuePolicy):
            def apply(self, env):
                env.headers['X-Seen'] = 'yes'
                if False:
                    yield env

        class GenPass(QueuePolicy):
            def apply(self, env):
                yield env.copy()
        pol = case.get('policy')
        if pol in ('gen-none', 'gen-pass'):
            q.add_policy(GenNone() if pol == 'gen-none' else GenPass())
            q.add_policy(split)
        else:
            q.add_policy({'gen': GenSplit(), 'iter': IterSplit(), 'tuple': TupleSplit()}.get(pol, split))
        state['store'] = store
        return q

    class R(Relay):
        def attempt(self, envelope, attempts):
            ro = case['relay']
            state['relay_rcpts'] = list(envelope.recipients)
            if ro == 'whole':
                return None
            if ro == 'reply':
                return Reply('250', '2.0.0 ok')
            if ro.startswith('crash'):
                # not a RelayError: a custom relay whose peer goes away, a policy that chokes on the message
                raise ConnectionResetError(104, 'Connection reset by peer') if ro == 'crash-reset' else ValueError('bad header')
            if ro.startswith('raise'):
                code = ro[5:]
                cls = PermanentRelayError if code[0] == '5' else TransientRelayError
                raise cls('no', Reply(code, code[0] + '.0.0 no'))
            shape, vec = ro.split(':')
            vals = []
            for v in vec.split('.'):
                if v == 'ok':
                    vals.append(Reply('250', '2.0.0 ok'))
                else:
                    cls = PermanentRelayError if v[0] == '5' else TransientRelayError
                    vals.append(cls('no', Reply(v, v[0] + '.0.0 no')))
            if shape == 'map':
                return dict(zip(envelope.recipients, vals))
            return vals
    return ProxyQueue(R())


def recipients(case):
    if 'rcpts' in case:
        return list(case['rcpts'])
    n = len(case['writes']) if case['kind'] == 'queue' else case['n']
    return ['user%d@domain%d.example' % (i, i) for i in range(n)]


def model_line(case):
    if case['kind'] == 'queue':
        return 'edge queue ' + ','.join('exc' if w == 'tmo' else w for w in case['writes'])
    ro = case['relay']
    if ro in ('whole', 'reply'):
        return 'edge proxy whole'
    if ro.startswith('crash'):
        return 'edge proxy crash'
    if ro.startswith('raise'):
        return 'edge proxy ' + ro
    return 'edge proxy per:' + ro.split(':')[1]


def drive_smtp(case, queue, state):
    import gevent
    from gevent import socket
    from slimta.edge.smtp import SmtpEdge
    a, b = socket.socketpair()
    edge = SmtpEdge(None, queue, hostname='edge.example')
    g = gevent.spawn(edge.handle, b, ('127.0.0.1', 40000))
    f = a.makefile('rb')

    def read_reply():
        lines = []
        while True:
            l = f.readline()
            if not l:
                return None
            if not l.strip():
                continue            # the 421 of a timeout starts on a fresh line
            lines.append(l)
            if l[3:4] != b'-':
                return int(l[:3])
    out = {'early': False}
    try:
        with gevent.Timeout(5):
            read_reply()
            a.sendall(b'EHLO client.example\r\n'); read_reply()
            a.sendall(('MAIL FROM:<%s>\r\n' % case.get('sender', 'sender@example.com')).encode()); read_reply()
            for r in recipients(case):
                a.sendall(('RCPT TO:<%s>\r\n' % r).encode()); read_reply()
            a.sendall(b'DATA\r\n'); read_reply()
            a.sendall(b'Subject: c02\r\n\r\nbody\r\n.\r\n')
            if case.get('slow') is not None:
                # the reply must not come while a write is still in progress
                from gevent import select as gselect
                r, _, _ = gselect.select([a], [], [], 0.05)
                if r:
                    out['early'] = True
                state['stored_while_waiting'] = snapshot_store(state)
                state['gate'].set()
            out['code'] = read_reply()
            out['stored'] = snapshot_store(state)
            try:
                a.sendall(b'QUIT\r\n')
            except OSError:
                pass
    except gevent.Timeout:
        out['code'] = 'timeout'
    finally:
        a.close()
        g.kill(block=False)
    return out


def wsgi_environ(case):
    import base64
    body = b'Subject: c02\r\n\r\nbody\r\n'
    b64 = lambda s: base64.b64encode(s.encode()).decode()
    return {
        'REQUEST_METHOD': 'POST', 'PATH_INFO': '/', 'CONTENT_TYPE': 'message/rfc822', 'CONTENT_LENGTH': str(len(body)),
        'wsgi.input': io.BytesIO(body), 'REMOTE_ADDR': '127.0.0.1', 'wsgi.url_scheme': 'http',
        'HTTP_X_EHLO': 'client.example', 'HTTP_X_ENVELOPE_SENDER': b64(case.get('sender', 'sender@example.com')),
        'HTTP_X_ENVELOPE_RECIPIENT': ', '.join(b64(r) for r in recipients(case)),
    }, body


def drive_wsgi(case, queue, state):
    import gevent
    from slimta.edge.wsgi import WsgiEdge
    edge = WsgiEdge(queue, hostname='edge.example')
    environ, _ = wsgi_environ(case)
    out = {'early': False}
    box = {}

    def start_response(status, headers):
        box['status'] = status
        if status.startswith('500') and not any(k.lower() == 'x-smtp-reply' for k, _ in headers):
            out['raised'] = 'answered by the edge\'s own exception handler'

    def go():
        try:
            edge(environ, start_response)
        except BaseException as e:
            box.setdefault('status', '500 the WSGI application raised')      # what a WSGI server makes of it
            out['raised'] = type(e).__name__
        out['stored'] = snapshot_store(state)
    g = gevent.spawn(go)
    if case.get('slow') is not None:
        gevent.sleep(0.03)
        if 'status' in box:
            out['early'] = True
        state['stored_while_waiting'] = snapshot_store(state)
        state['gate'].set()
    g.join(5)
    out['code'] = int(box['status'].split()[0]) if 'status' in box else 'timeout'
    if 'stored' not in out:
        out['stored'] = snapshot_store(state)
    return out


def drive_wsgi_loopback(case, queue, state):
    import gevent
    from gevent import socket
    from slimta.edge.wsgi import WsgiEdge
    edge = WsgiEdge(queue, hostname='edge.example')
    edge.server = edge.build_server(('127.0.0.1', 0))       # (a listener without a TLS context cannot be given to the constructor)
    edge.server.log = None
    edge.server.start()
    port = edge.server.server_port
    environ, body = wsgi_environ(case)
    out = {'early': False}
    try:
        with gevent.Timeout(5):
            s = socket.create_connection(('127.0.0.1', port))
            req = ('POST / HTTP/1.1\r\nHost: x\r\nContent-Type: message/rfc822\r\nContent-Length: %d\r\nX-Ehlo: client.example\r\n'
                   'X-Envelope-Sender: %s\r\n' % (len(body), environ['HTTP_X_ENVELOPE_SENDER']))
            for r in environ['HTTP_X_ENVELOPE_RECIPIENT'].split(', '):
                req += 'X-Envelope-Recipient: %s\r\n' % r
            req += 'Connection: close\r\n\r\n'
            s.sendall(req.encode() + body)
            data = b''
            while b'\r\n' not in data:
                d = s.recv(4096)
                if not d:
                    break
                data += d
            out['code'] = int(data.split()[1])
            out['stored'] = snapshot_store(state)
            s.close()
    except gevent.Timeout:
        out['code'] = 'timeout'
    finally:
        edge.server.stop()
    return out


def snapshot_store(state):
    st = state.get('store')
    if st is None:
        return None
    return sorted(tuple(env.recipients) for env in st.env_db.values())


def run_wsgi_gate(case, model):
    """The HTTP edge with its optional gates: a URI pattern, the verb, the content type, a validator class refusing the EHLO string,
    the sender, a recipient or a custom header. A request that a gate refuses gets a non-2xx status and nothing is enqueued; a request
    that passes them all is enqueued once and answered 2xx."""
    from slimta.edge.wsgi import WsgiEdge, WsgiValidators, WsgiResponse
    got = []

    class Q(object):
        def enqueue(self, envelope):
            got.append((envelope.sender, list(envelope.recipients)))
            return [(envelope, 'id1')]
    refuse = case['refuse']

    class V(WsgiValidators):
        custom_headers = ['X-Custom-Header']

        def validate_ehlo(self, ehlo):
            if refuse == 'ehlo':
                raise WsgiResponse('403 Forbidden')

        def validate_sender(self, sender):
            if refuse == 'sender':
                raise WsgiResponse('403 Forbidden')

        def validate_recipient(self, recipient):
            if refuse == 'rcpt' and recipient == 'user1@domain1.example':
                raise WsgiResponse('403 Forbidden')

        def validate_custom(self, name, value):
            if refuse == 'custom' and value != 'expected':
                raise WsgiResponse('400 Bad Request')
    edge = WsgiEdge(Q(), hostname='edge.example', validator_class=V if case['validators'] else None,
                    uri_pattern=r'^/inbox/' if case['uri'] else None)
    environ, _ = wsgi_environ({'kind': 'queue', 'writes': ['ok', 'ok']})
    environ['PATH_INFO'] = '/inbox/x' if refuse != 'uri' else '/elsewhere'
    if refuse == 'verb':
        environ['REQUEST_METHOD'] = 'GET'
    if refuse == 'ctype':
        environ['CONTENT_TYPE'] = 'text/plain'
    environ['HTTP_X_CUSTOM_HEADER'] = 'expected' if refuse != 'custom' else 'something else'
    box = {}
    try:
        edge(environ, lambda status, headers: box.setdefault('status', status))
    except BaseException:
        box.setdefault('status', '500 the WSGI application raised')
    code = int(box.get('status', '0').split()[0])
    refused = refuse in ('verb', 'ctype') or (refuse == 'uri' and case['uri']) or (refuse in ('ehlo', 'sender', 'rcpt', 'custom') and case['validators'])
    hits = []
    if refused and (code // 100 == 2 or got):
        hits.append(hit('c02.wsgi-gate-passed.' + refuse, 'the HTTP edge accepted (or enqueued) a request that its %s gate refuses' % refuse,
                        observed={'status': box.get('status'), 'enqueued': got}))
    if not refused and (code // 100 != 2 or len(got) != 1 or got[0] != ('sender@example.com', ['user0@domain0.example', 'user1@domain1.example'])):
        hits.append(hit('c02.wsgi-gate-refused-good-request', 'a request that passes every gate was not enqueued once and answered 2xx',
                        observed={'status': box.get('status'), 'enqueued': got}))
    return CaseResult(None, hits, ('wsgi-gate', refuse, case['validators'], case['uri']), ['wsgi-gate'])


def run_concurrent(case, model):
    """Several SMTP deliveries in flight at the same edge and Queue at once; a queue policy and the storage writes yield (as a content
    scanner and a networked store do). Every message answered 2xx must be in storage: each of its recipients once, with its own sender."""
    import gevent
    from gevent import socket
    from slimta.edge.smtp import SmtpEdge
    from slimta.queue import Queue
    from slimta.queue.dict import DictStorage
    from slimta.policy import QueuePolicy
    from slimta.policy.split import RecipientDomainSplit
    try:
        gevent.get_hub().exception_stream = None
    except Exception:
        pass
    delays = list(case['delays'])

    class Scanner(QueuePolicy):
        def apply(self, envelope):
            gevent.sleep(delays.pop(0) if delays else 0)

    class Store(DictStorage):
        def write(self, envelope, timestamp):
            gevent.sleep(0.001)
            return DictStorage.write(self, envelope, timestamp)
    store = Store()
    q = Queue(store, relay=None)
    for t in case['chain']:
        q.add_policy(Scanner() if t == 'Y' else RecipientDomainSplit())
    edge = SmtpEdge(None, q, hostname='edge.example')
    codes = {}

    def client(k):
        a, b = socket.socketpair()
        g = gevent.spawn(edge.handle, b, ('127.0.0.1', 40000 + k))
        f = a.makefile('rb')

        def rr():
            while True:
                l = f.readline()
                if not l:
                    return None
                if l.strip() and l[3:4] != b'-':
                    return int(l[:3])
        try:
            with gevent.Timeout(5):
                rr()
                a.sendall(b'EHLO c%d.example\r\n' % k); rr()
                a.sendall(b'MAIL FROM:<s%d@example.com>\r\n' % k); rr()
                for d in range(case['ndomains']):
                    a.sendall(b'RCPT TO:<m%d.r%d@dom%d.example>\r\n' % (k, d, d)); rr()
                a.sendall(b'DATA\r\n'); rr()
                a.sendall(b'Subject: message %d\r\n\r\nbody %d\r\n.\r\n' % (k, k))
                codes[k] = rr()
                a.sendall(b'QUIT\r\n')
        except gevent.Timeout:
            codes[k] = 'timeout'
        finally:
            a.close()
            g.kill(block=False)
    gs = [gevent.spawn(client, k) for k in range(case['nclients'])]
    gevent.joinall(gs, timeout=8)
    hits = []
    stored = [(env.sender, tuple(env.recipients), env.flatten()[1]) for env in store.env_db.values()]
    for k in range(case['nclients']):
        if codes.get(k) != 250:
            hits.append(hit('c02.concurrent-delivery-not-accepted', 'one of several simultaneous deliveries was not accepted although nothing failed', observed=codes.get(k)))
            break
        for d in range(case['ndomains']):
            r = 'm%d.r%d@dom%d.example' % (k, d, d)
            mine = [x for x in stored if r in x[1]]
            if len(mine) != 1 or mine[0][0] != 's%d@example.com' % k or mine[0][2] != b'body %d\r\n' % k:
                hits.append(hit('c02.ack-without-custody.smtp.concurrent', 'with several deliveries in flight at once a message was answered 250 although a '
                                'recipient of it is not in storage exactly once with its own sender and content',
                                observed={'recipient': r, 'stored': [(x[0], x[1]) for x in mine], 'all': len(stored)}))
                break
        if hits:
            break
    key = ('concurrent', case['nclients'], case['ndomains'], tuple(case['chain']), tuple(case['delays']))
    return CaseResult(None, hits, key, ['concurrent-deliveries'])


def run_ingress(case, model):
    """One message through a real edge into a real Queue with a chain of the built-in policies, a storage whose k-th write fails and
    (optionally) a relay that keeps every attempt in flight; compared with the composition Model/Ingress.lean: the reply, the
    envelopes of the policies, what the storage holds for every id it handed out, what was handed to the relay, the active ids."""
    import re
    import gevent
    from gevent.event import Event
    from slimta.queue import QueueError
    from slimta.queue.dict import DictStorage
    from slimta.relay import Relay
    from slimta.smtp.reply import Reply
    from harness.props import c16
    try:
        gevent.get_hub().exception_stream = None
    except Exception:
        pass
    state = {}
    calls = []            # per write call: (recipients of the envelope, outcome token, real id)
    handed = []
    never = Event()
    writes = {int(k): v for k, v in case['writes'].items()}

    class Store(DictStorage):
        def write(self, envelope, timestamp):
            k = len(calls)
            w = writes.get(k, 'ok')
            rec = [list(envelope.recipients), w, None]
            calls.append(rec)
            if w == 'ok':
                rec[2] = DictStorage.write(self, envelope, timestamp)
                return rec[2]
            if w == 'exc':
                raise RuntimeError('disk on fire')
            e = QueueError('cannot write')
            if w == 'qe452':
                e.reply = Reply('452', '4.3.1 Insufficient system storage')
            elif w == 'qe552':
                e.reply = Reply('552', '5.3.4 Too big for the queue')
            raise e

    class R(Relay):
        def attempt(self, envelope, attempts):
            handed.append((list(envelope.recipients), attempts, envelope))
            never.wait()
    q = c16.build_queue(case['chain'])
    store = Store()
    q.store = store
    q.relay = R() if case['relay'] else None
    state['store'] = store
    given = []
    real_enqueue = q.enqueue

    def enqueue(envelope):
        given.append(list(envelope.recipients))
        return real_enqueue(envelope)
    q.enqueue = enqueue
    sender = 'sender@example.com' if case['nonnull'] else ''
    rc = {'kind': 'queue', 'rcpts': case['rcpts'], 'sender': sender}
    if case['edge'] == 'smtp':
        out = drive_smtp(rc, q, state)
    else:
        out = drive_wsgi(rc, q, state)
    gevent.sleep(0)               # the _attempt greenlets reach the relay
    code = out['code']
    hits = []
    tag = case['edge']
    if len(given) != 1:
        # the edge refused a recipient or never handed the message on: nothing to compare (not this property)
        return CaseResult(None, hits, None, ['ingress', 'edge-did-not-enqueue'])
    rcpts = given[0]
    # ---- the model line (values and oracle tables as in C16)
    ids = {}

    def vid(sv):
        return ids.setdefault(sv, len(ids))
    seen = set(rcpts)
    frontier = list(dict.fromkeys(rcpts))
    for _ in range(len(case['chain']) + 1):
        new = []
        for v in frontier:
            for pat, repl, count in c16.RULES:
                nv, ch = re.subn(pat, repl, v, count)
                if nv not in seen:
                    seen.add(nv)
                    new.append(nv)
        frontier = new
    allvals = sorted(seen)
    for v in rcpts:
        vid(v)
    for v in allvals:
        vid(v)
    dom = {}
    domt = []
    for v in allvals:
        k = c16.spec_domkey(v)
        domt.append('%d=%s' % (ids[v], '!' if k is None else str(dom.setdefault(k, len(dom)))))
    subt = []
    for ri, (pat, repl, count) in enumerate(c16.RULES):
        for v in allvals:
            nv, ch = re.subn(pat, repl, v, count)
            subt.append('%d:%d=%d:%d:%d' % (ri, ids[v], vid(nv), ch, 1 if nv else 0))
    mchain = ','.join(t if not t.startswith('F') else 'F' + '.'.join(map(str, c16.RULESETS[t])) for t in case['chain'])
    mw = []
    idmap = {}
    for k, (_, w, rid) in enumerate(calls):
        if w == 'ok':
            idmap[rid] = k + 1
            mw.append('ok:%d' % (k + 1))
        else:
            mw.append(w)
    line = 'ingress run %s %s - %s %s %s %d %d' % (mchain, ','.join(str(ids[v]) for v in rcpts), ';'.join(domt) or '-', ';'.join(subt) or '-',
                                                  ','.join(mw) or '-', 1 if case['nonnull'] else 0, 1 if case['relay'] else 0)
    mres = model.ask(line)
    # ---- the implementation, in the model's words
    name = {v: k for k, v in ids.items()}

    def vals(rl):
        return ','.join(str(ids.get(r, -1)) for r in rl) or '-'
    impl = {'code': code, 'envs': '|'.join(vals(c[0]) for c in calls)}
    impl['stored'] = '|'.join('%d=%s@%d' % (idmap[rid], vals(store.env_db[rid].recipients), store.meta_db[rid]['attempts'])
                              if rid in store.env_db else '%d=none' % idmap[rid] for _, w, rid in calls if w == 'ok')
    env_ids = {id(env): rid for rid, env in store.env_db.items()}
    impl['handed'] = '|'.join('%s@%d' % (vals(rl), att) for rl, att, _ in handed)
    impl['active'] = ','.join(str(x) for x in sorted(idmap[r] for r in q.active_ids if r in idmap)) or '-'
    mm = {}
    mismatch = None
    if mres.startswith('smtp='):
        parts = mres.split(' ')
        for x in parts:
            if '=' in x:
                k, v = x.split('=', 1)
                mm[k] = v
        slot_val = {}
        for part in mm.get('envs', '').split('|'):
            for x in part.split(','):
                if ':' in x:
                    sl, v = x.split(':')
                    slot_val[sl] = v

        def unslot(text, with_id):
            out = []
            for part in text.split('|') if text else []:
                head, rest = (part.split('=', 1) if with_id else ('', part))
                body, _, att = rest.partition('@')
                body = body if body in ('none', '-') else ','.join(slot_val.get(x, '?') for x in body.split(','))
                out.append((head + '=' if with_id else '') + body + ('@' + att if att else ''))
            return '|'.join(out)
        want = {'code': int(mm['smtp'] if case['edge'] == 'smtp' else mm['wsgi']),
                'envs': '|'.join(','.join(x.split(':')[1] for x in part.split(',')) if part != '-' else '-' for part in mm.get('envs', '').split('|')),
                'stored': unslot(mm.get('stored', ''), True),
                'handed': '|'.join(x.split('=', 1)[1] for x in unslot(mm.get('handed', ''), True).split('|') if x),
                'active': mm.get('active', '-')}
        if 'stuck' in parts:
            want['stuck'] = True
        if impl != want:
            mismatch = {'op': 'ingress run', 'impl': impl, 'model': want, 'line': line[:600]}
    else:
        mismatch = {'op': 'ingress run', 'impl': impl, 'model': mres, 'line': line[:600]}
    # ---- the property on the implementation alone
    ack = isinstance(code, int) and code // 100 == 2
    fwd_chain = [c16.RULESETS[t] for t in case['chain'] if t.startswith('F')]
    expect = []
    for r in rcpts:
        for rules in fwd_chain:
            r = c16.spec_forward_one(r, rules)
        expect.append(r)
    have = sorted(r for env in store.env_db.values() for r in env.recipients)
    failed = [w for _, w, _ in calls if w != 'ok']
    if ack and have != sorted(expect):
        hits.append(hit('c02.ack-without-custody.%s.ingress' % tag, 'the client got a success reply although the storage does not hold every (rewritten) '
                        'recipient of the message exactly once', observed={'code': code, 'stored': have, 'writes': case['writes']}, expected=sorted(expect)))
    elif failed and (code == 'timeout' or (isinstance(code, int) and code // 100 not in (4, 5))):
        hits.append(hit('c02.failed-write-not-reported.%s' % tag, 'a storage write failed and the client did not get a 4xx/5xx reply',
                        observed={'code': code, 'writes': case['writes']}))
    never.set()
    key = ('ingress', case['edge'], tuple(case['chain']), tuple(rcpts), tuple(sorted(writes.items())), case['relay'], case['nonnull'])
    tags = ['ingress', case['edge'], 'envs=%s' % ('1' if len(calls) == 1 else '2-3' if len(calls) <= 3 else '4+'), 'ack' if ack else 'nack',
            'relay' if case['relay'] else 'no-relay', 'failing-write' if failed else 'all-writes-ok']
    return CaseResult(mismatch, hits, key, tags)


def run_proxyhop(case, model):
    """A message through a real edge into a real ProxyQueue over a real StaticSmtpRelay / StaticLmtpRelay whose next hop is one of
    C11's scripted peers; the reply the edge's client gets vs the composition Ingress.proxyHop (Edge.proxyEnqueue of Relay.attempt)."""
    import gevent
    from gevent import socket as gsocket
    import socket as _socket
    from slimta.queue.proxy import ProxyQueue
    from slimta.relay.smtp.static import StaticSmtpRelay, StaticLmtpRelay
    from harness.props import c11
    try:
        gevent.get_hub().exception_stream = None
    except Exception:
        pass
    sc = case['script']
    peers = []
    shared = {'n': 0}

    def creator(address):
        if sc.get('connect', 'ok') == 'refused':
            raise _socket.error(111, 'Connection refused')
        a, b = gsocket.socketpair()
        p = c11.Peer(b, sc, shared)
        peers.append((p, gevent.spawn(p.run)))
        return a
    kw = dict(socket_creator=creator, ehlo_as='relay.example', connect_timeout=0.5, command_timeout=1.0, data_timeout=1.0,
              tls_required=bool(sc.get('tlsrequired')))
    if sc.get('credentials'):
        kw['credentials'] = ('user', 'pass')
    if sc.get('encoder'):
        from email.encoders import encode_base64
        kw['binary_encoder'] = encode_base64
    relay = (StaticLmtpRelay if sc['lmtp'] else StaticSmtpRelay)('peer.example', 25, **kw)
    q = ProxyQueue(relay)
    rc = {'kind': 'proxy', 'rcpts': ['rcpt%d@example.com' % i for i in range(sc['nr'])]}
    state = {}
    out = drive_smtp(rc, q, state) if case['edge'] == 'smtp' else drive_wsgi(rc, q, state)
    for p, g in peers:
        g.kill(block=False)
    for c in list(relay.pool):
        c.kill(block=False)
    code = out['code']
    m = model.ask('ingress proxyhop ' + ' '.join(c11.smtp_args(sc)))
    mm = dict(x.split('=') for x in m.split(' ')) if m.startswith('smtp=') else {}
    mismatch = None
    hits = []
    if not mm:
        mismatch = {'op': 'ingress proxyhop', 'model': m}
    elif case['edge'] == 'smtp':
        want = int(mm['smtp']) // 100
        if not isinstance(code, int) or code // 100 != want:
            mismatch = {'op': 'ingress proxyhop', 'impl': code, 'model_class': want, 'script': sc['dev']}
    else:
        want = int(mm['wsgi'])
        got = 500 if code == 401 else code
        if out.get('raised'):
            # _build_http_response raises for a reply that names its command as bytes (every reply the SMTP client read for a
            # command): the WSGI server answers a bare 500 where 503 / 500 with X-Smtp-Reply was meant. No success reply: C02 holds;
            # DESIGN 9.4, observations. The model must say "failure" too.
            if want == 204:
                mismatch = {'op': 'ingress proxyhop', 'impl': code, 'raised': out['raised'], 'model': want, 'script': sc['dev']}
        elif got != want:
            mismatch = {'op': 'ingress proxyhop', 'impl': code, 'model': want, 'script': sc['dev']}
    ack = isinstance(code, int) and code // 100 == 2
    if ack:
        # the property on the implementation alone: the next hop must have been asked for every recipient and have accepted each,
        # and have accepted the message data
        dev = sc['dev']
        refused = [k for k, v in dev.items() if (k.startswith('rcpt') or k in ('mail', 'data', 'eod') or (sc['lmtp'] and k.startswith('eod')))
                   and not (v.isdigit() and v[0] in '23')]
        if refused:
            hits.append(hit('c02.ack-without-custody.%s.proxyhop' % case['edge'], 'the client got a success reply although the next hop behind the proxying queue '
                            'refused a recipient or the message', observed={'code': code, 'script': dev, 'refused': refused}))
    key = ('proxyhop', case['edge'], sc['lmtp'], sc['pipelining'], sc['nr'], tuple(sorted(sc['dev'].items())), sc.get('connect'), bool(sc.get('credentials')), bool(sc.get('tlsrequired')))
    return CaseResult(mismatch, hits, key, ['proxyhop', case['edge'], 'lmtp' if sc['lmtp'] else 'smtp-next-hop', 'ack' if ack else 'nack'] + (['wsgi-app-raised'] if out.get('raised') else []))


def run_httphop(case, model):
    """The hop between two hosts that speak HTTP: a real HttpRelay delivers to a real WsgiEdge (pywsgi on loopback) in front of a real
    Queue + RecipientDomainSplit over a store whose k-th write fails. What the relay reports vs Ingress.httpHop, and the property
    across the hop: reported delivered only with every envelope in the receiving storage."""
    import gevent
    from slimta.edge.wsgi import WsgiEdge
    from slimta.relay.http import HttpRelay
    from slimta.envelope import Envelope
    from harness.props import c11
    try:
        gevent.get_hub().exception_stream = None
    except Exception:
        pass
    state = {}
    qcase = {'kind': 'queue', 'writes': case['writes'], 'slow': None}
    queue = make_queue(qcase, state)
    edge = WsgiEdge(queue, hostname='edge.example')
    edge.server = edge.build_server(('127.0.0.1', 0))
    edge.server.log = None
    edge.server.start()
    port = edge.server.server_port
    relay = HttpRelay('http://127.0.0.1:%d/' % port, timeout=3.0, ehlo_as='relay.example')
    rcpts = recipients(qcase)
    env = Envelope('sender@example.com', list(rcpts))
    env.parse(b'Subject: c02 http hop\r\n\r\nbody\r\n')
    try:
        res = c11.run_attempt(relay, env, watchdog=6.0)
    finally:
        try:
            edge.server.stop()
            for c in list(relay.pool):
                c.kill(block=False)
        except Exception:
            pass
    stored = snapshot_store(state) or []
    m = model.ask('ingress httphop %d %s' % (len(rcpts), ','.join(case['writes'])))
    mismatch = None if m == res else {'op': 'ingress httphop', 'impl': res, 'model': m, 'writes': case['writes']}
    hits = []
    have = set(r for e in stored for r in e)
    if res.startswith('table:') and 'ok' in res and not set(rcpts) <= have:
        hits.append(hit('c02.ack-without-custody.http-hop', 'the HTTP relay reports the message delivered although an envelope of it is not in the '
                        'receiving host\'s storage', observed={'relay': res, 'stored': stored, 'writes': case['writes']}, expected=rcpts))
    key = ('httphop', tuple(case['writes']))
    return CaseResult(mismatch, hits, key, ['httphop', 'n=%d' % len(rcpts), res.split(':')[0] + (':' + res.split(':')[1] if res.startswith('raised') else '')])


def run_smtphop(case, model):
    """The hop between two hosts that speak SMTP: a real StaticSmtpRelay delivers over a socketpair to a real SmtpEdge in front of a
    real Queue + RecipientDomainSplit over a store whose k-th write fails. What the relay reports vs the composition of the relay
    model with the edge's reply choice; "delivered" needs every envelope in the receiving storage."""
    import gevent
    from gevent import socket as gsocket
    from slimta.edge.smtp import SmtpEdge
    from slimta.relay.smtp.static import StaticSmtpRelay
    from slimta.envelope import Envelope
    from harness.props import c11
    try:
        gevent.get_hub().exception_stream = None
    except Exception:
        pass
    state = {}
    qcase = {'kind': 'queue', 'writes': case['writes'], 'slow': None}
    queue = make_queue(qcase, state)
    edge = SmtpEdge(None, queue, hostname='edge.example')
    sessions = []

    def creator(address):
        a, b = gsocket.socketpair()
        sessions.append(gevent.spawn(edge.handle, b, ('127.0.0.1', 40000)))
        return a
    relay = StaticSmtpRelay('edge.example', 25, socket_creator=creator, ehlo_as='relay.example', connect_timeout=2.0, command_timeout=3.0,
                            data_timeout=3.0)
    rcpts = recipients(qcase)
    env = Envelope('sender@example.com', list(rcpts))
    env.parse(b'Subject: c02 smtp hop\r\n\r\nbody\r\n')
    try:
        res = c11.run_attempt(relay, env, watchdog=8.0)
    finally:
        for c in list(relay.pool):
            c.kill(block=False)
        for g in sessions:
            g.kill(block=False)
    stored = snapshot_store(state) or []
    m = model.ask('ingress smtphop %d %s' % (len(rcpts), ','.join('exc' if w == 'tmo' else w for w in case['writes'])))
    mismatch = None if m == res else {'op': 'ingress smtphop', 'impl': res, 'model': m, 'writes': case['writes']}
    hits = []
    have = set(r for e in stored for r in e)
    if res.startswith('table:') and 'ok' in res and not set(rcpts) <= have:
        hits.append(hit('c02.ack-without-custody.smtp-hop', 'the SMTP relay reports a recipient delivered although an envelope of the message is not in '
                        'the receiving host\'s storage', observed={'relay': res, 'stored': stored, 'writes': case['writes']}, expected=rcpts))
    key = ('smtphop', tuple(case['writes']))
    return CaseResult(mismatch, hits, key, ['smtphop', 'n=%d' % len(rcpts), res.split(':')[0] + (':' + res.split(':')[1] if res.startswith('raised') else '')])


def run_case(case, model):
    if case.get('kind') == 'wsgi-gate':
        return run_wsgi_gate(case, model)
    if case.get('kind') == 'concurrent':
        return run_concurrent(case, model)
    if case.get('kind') == 'ingress':
        return run_ingress(case, model)
    if case.get('kind') == 'proxyhop':
        return run_proxyhop(case, model)
    if case.get('kind') == 'httphop':
        return run_httphop(case, model)
    if case.get('kind') == 'smtphop':
        return run_smtphop(case, model)
    import gevent
    try:
        gevent.get_hub().exception_stream = None
    except Exception:
        pass
    state = {}
    queue = make_queue(case, state)
    if case['edge'] == 'smtp':
        out = drive_smtp(case, queue, state)
    elif case['edge'] == 'wsgi':
        out = drive_wsgi(case, queue, state)
    else:
        out = drive_wsgi_loopback(case, queue, state)
    m = model.ask(model_line(case))
    mm = dict(x.split('=') for x in m.split(' '))
    want = int(mm['smtp'] if case['edge'] == 'smtp' else mm['wsgi'])
    mismatch = None
    if out['code'] != want:
        mismatch = {'op': model_line(case), 'impl': out['code'], 'model': want, 'edge': case['edge']}
    hits = []
    code = out['code']
    ack = isinstance(code, int) and code // 100 == 2
    rcpts = recipients(case)
    tag = case['edge'].split('-')[0]
    if case['kind'] == 'queue':
        stored = out.get('stored') or []
        have = set(r for env in stored for r in env)
        failed = [w for w in case['writes'] if w != 'ok']
        if ack and not set(rcpts) <= have:
            hits.append(hit('c02.ack-without-custody.%s.queue' % tag, 'the client got a success reply although an envelope of the message is not in storage',
                            observed={'code': code, 'stored': stored, 'writes': case['writes']}, expected=rcpts))
        elif failed and (code == 'timeout' or (isinstance(code, int) and code // 100 not in (4, 5))):
            hits.append(hit('c02.failed-write-not-reported.%s' % tag, 'a storage write failed and the client did not get a 4xx/5xx reply',
                            observed={'code': code, 'writes': case['writes']}))
        if out.get('early'):
            hits.append(hit('c02.reply-before-write-completed.%s' % tag, 'the reply was sent while a storage write was still in progress',
                            observed={'code': code, 'slow': case['slow']}))
    else:
        ro = case['relay']
        all_ok = ro in ('whole', 'reply') or (':' in ro and all(v == 'ok' for v in ro.split(':')[1].split('.')))
        if ack and not all_ok:
            hits.append(hit('c02.ack-without-custody.%s.proxy' % tag, 'the client got a success reply although the relay did not deliver to every recipient',
                            observed={'code': code, 'relay': ro}))
        if not ack and all_ok:
            hits.append(hit('c02.delivered-message-refused.%s.proxy' % tag, 'the relay delivered to every recipient and the client was told it failed',
                            observed={'code': code, 'relay': ro}))
    n = len(rcpts)
    nontrivial = n >= 2 or (case['kind'] == 'queue' and any(w != 'ok' for w in case['writes'])) or (case['kind'] == 'proxy' and case['relay'] not in ('whole', 'reply'))
    key = (case['edge'], case['kind'], tuple(case.get('writes') or ()), case.get('slow'), case.get('relay'), case.get('n'), case.get('policy'))
    tags = [case['edge'], case['kind'], 'n=%d' % n, 'policy:' + (case.get('policy') or 'list'), 'ack' if ack else 'nack', 'slow' if case.get('slow') is not None else 'not-slow']
    return CaseResult(mismatch, hits, key if nontrivial else None, tags)
