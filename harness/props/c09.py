"""C09 — server behaviour does not depend on how client bytes are segmented or pipelined.

Implementation: real slimta.smtp.server.Server over a scripted socket; each session byte stream is delivered in one
burst, byte by byte, line by line and in seeded cut sets (with and without a recv_buffer prefix); replies and callbacks
(with arguments, message content included) must be identical, and equal to the model's (`server run`).
"""
from harness.core import CaseResult, hit, rng_for
from harness import serverdrv as sd
from harness.fakes.sock import cut

RULE = ('session byte streams built from transactions (several per session; empty bodies; bodies containing '
        'command-looking lines, lone dots, dot-stuffed lines; bodies under/at/over the SIZE limit; pipelined commands past '
        'DATA; bare LF line ends; malformed lines) each delivered under 8 segmentations (burst, byte-wise, line-wise, 5 '
        'seeded cut sets incl. a recv_buffer prefix); all traces compared with each other and with the model. '
        'distinct = distinct (stream, config, verdicts); non-trivial = stream holds at least one command.')
BUDGET_S = {'quick': 160, 'thorough': 1500}

BODIES = [b'', b'hello\r\n', b'MAIL FROM:<evil@x>\r\nRCPT TO:<victim@y>\r\nQUIT\r\n', b'..\r\n. \r\n.x\r\n', b'a\nb\n', b'no newline at end',
          b'\r\n\r\n', b'x' * 30 + b'\r\n', b'QUIT\r\n' * 6, b'.\rnot-eod\r\n', b'\xff\xfe\x00\r\n', b'DATA\r\n.\r\nRSET\r\n']
# a line as long as a recv() piece (4096) or two, followed by dot-leading text: the burst delivery cuts right behind the long run
LONG_BODIES = [b'a' * 4096 + b'.tail\r\n', b'a' * 4096 + b'.\r\nMAIL FROM:<evil@x>\r\nRCPT TO:<v@y>\r\n', b'a' * 8192 + b'..\r\nx\r\n',
               b'a' * 4095 + b'\r\n.x\r\n', b'a' * 4090 + b'.\r\nNOOP\r\n']
CONFIGS = [{'starttls': False, 'auth': False, 'maxsize': None}, {'starttls': False, 'auth': False, 'maxsize': 40},
           {'starttls': False, 'auth': False, 'maxsize': 12}]


def stuff(body):
    from slimta.smtp.datasender import DataSender
    return b''.join(DataSender(body))


def gen_stream(rng):
    out = [rng.choice([b'EHLO c.example\r\n', b'HELO c\r\n', b'EHLO c\n', b''])]
    for _ in range(rng.randint(1, 3)):
        t = []
        t.append(rng.choice([b'MAIL FROM:<s@x>\r\n', b'MAIL FROM:<s@x> SIZE=10\r\n', b'MAIL FROM:<s@x>\n', b'MAIL FROM:s@x\r\n']))
        for _ in range(rng.randint(0, 2)):
            t.append(rng.choice([b'RCPT TO:<r@y>\r\n', b'RCPT TO:<r2@y>\r\n', b'RCPT TO:<"a>"@y>\r\n']))
        if rng.random() < 0.85:
            t.append(b'DATA\r\n')
            body = rng.choice(LONG_BODIES) if rng.random() < 0.04 else rng.choice(BODIES)
            if rng.random() < 0.8:
                t.append(stuff(body))
            else:
                t.append(body + rng.choice([b'.\r\n', b'\r\n.\r\n', b'', b'\n.\n']))
        t.append(rng.choice([b'', b'', b'RSET\r\n', b'NOOP\r\n', b'bogus line\r\n', b'\r\n']))
        out += t
    out.append(rng.choice([b'QUIT\r\n', b'', b'NOOP\r\n', b'QUIT']))
    return b''.join(out)


def cases(tier, seed, phase):
    n = 1200 if tier == 'quick' else 20000
    for j in range(n):
        def mk(j=j):
            rng = rng_for(seed, 'c09', j)
            stream = gen_stream(rng)
            nv = 24
            verd = [None] * nv
            if rng.random() < 0.3:
                verd[rng.randrange(nv)] = rng.choice([450, 550, 250])
            cuts = []
            for k in range(5):
                m = rng.randint(1, min(8, max(1, len(stream) - 1)))
                cuts.append([rng.randint(0, len(stream)), sorted(rng.sample(range(1, max(2, len(stream))), min(m, max(1, len(stream) - 1))))])
            return {'cfg': rng.randrange(len(CONFIGS)), 'stream': stream.hex(), 'verdicts': verd, 'cuts': cuts}
        yield mk


def segmentations(stream, cuts):
    yield 'burst', b'', [stream] if stream else []
    yield 'bytewise', b'', [stream[i:i + 1] for i in range(len(stream))]
    lines = stream.split(b'\n')
    segs = [l + b'\n' for l in lines[:-1]] + ([lines[-1]] if lines[-1] else [])
    yield 'linewise', b'', segs
    dots = [i for i in range(1, len(stream)) if stream[i] == 46 and stream[i - 1] not in (10, 13)]
    if dots and len(stream) > 2000:
        yield 'before-inner-dots', b'', cut(stream, dots)      # a piece that begins with a dot in the middle of a (long) line
    for k, (b0, cs) in enumerate(cuts):
        b0 = min(b0, len(stream))
        rest = stream[b0:]
        yield 'cut%d' % k, stream[:b0], cut(rest, [c - b0 for c in cs if c > b0])


def run_case(case, model):
    cfg = CONFIGS[case['cfg']]
    stream = bytes.fromhex(case['stream'])
    hits = []
    mismatch = None
    ref = None
    ref_name = None
    for name, buf0, segs in segmentations(stream, case['cuts']):
        res = sd.run_server(cfg, case['verdicts'], buf0, segs)
        # what is left unread is compared only for sessions that ended by themselves (a blocked reader holds bytes internally)
        rest = (res['rest'].hex() or '-') if res['ending'] in ('closed', 'aborted') else '*'
        canon = '%s | %s | %s rest=%s' % (' '.join(res['events']) or '-', res['ending'], res['state'], rest)
        if ref is None:
            ref, ref_name = canon, name
            m = model.ask(sd.model_request(cfg, case['verdicts'], buf0, segs, [], sd.candidate_lines(stream)))
            mp = m.split(' | ')
            if len(mp) == 3:
                ms = ' '.join(x for x in mp[2].split(' ') if not x.startswith('env='))
                if mp[1] not in ('closed', 'aborted'):
                    ms = ' '.join(('rest=*' if x.startswith('rest=') else x) for x in ms.split(' '))
                m = '%s | %s | %s' % (mp[0], mp[1], ms)
            if m != canon:
                mismatch = {'op': 'server run', 'segmentation': name, 'impl': canon, 'model': m, 'exc': res.get('exc')}
        elif canon != ref:
            hits.append(hit('c09.segmentation-dependent', 'replies / callbacks differ between two segmentations of the same stream',
                            observed={name: canon[:1500]}, expected={ref_name: ref[:1500]}))
            break
    ev = ref.split(' | ')[0]
    tags = ['cfg%d' % case['cfg'], 'len<=80' if len(stream) <= 80 else 'len<=200' if len(stream) <= 200 else 'len>200',
            'toobig' if 'HAVEDATA:toobig' in ev else 'no-toobig', 'data' if 'cHAVEDATA' in ev else 'no-data']
    key = (case['cfg'], case['stream'], tuple(case['verdicts'])) if stream else None
    return CaseResult(mismatch, hits, key, tags)
