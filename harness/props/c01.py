"""C01 — accepted mail is never lost: every recipient reaches a final disposition.

Part 1 (this module): relay outcome histories (whole-message and per-recipient successes, transient and permanent
failures, unexpected exceptions; backoff tables that stop granting retries) on all four storage backends with the real
Queue, compared with the Lean attempt model (Model/Attempt.lean) and checked against the conservation ledger.
"""
import os

from harness.core import rng_for, CaseResult, hit
from harness.props import _queuehist as qh

RULE = ('seeded outcome histories of 1..6 attempts over 1..5 recipients mixing None/Reply, mapping, sequence, Transient, '
        'Permanent and unexpected exceptions, backoff tables ending in None, null and non-null sender, on dict, disk, '
        'redis and cloud backends, unbounded and bounded pools. distinct = distinct case descriptor; non-trivial = '
        'at least one attempt. kind=restart: a queue accepts 2..8 messages on disk / redis / cloud storage (some enqueues fail '
        'half-way and leave debris: disk: an envelope file without its meta file, a stray temp file, an unreadable meta file), '
        'the process "restarts" (fresh storage object and Queue over the same persisted state) and every accepted message must be '
        'attempted and leave storage.')
BUDGET_S = {'quick': 170, 'thorough': 1500}


def cases(tier, seed, phase):
    n = 2000 if tier == 'quick' else 40000
    for j in range(n):
        def mk(j=j):
            rng = rng_for(seed, 'c01', j)
            nr = rng.choice([1, 2, 3, 3, 4, 5])
            be = qh.BACKENDS[j % 4] if j % 3 else 'dict'
            kinds = rng.choice(['MQSPTX', 'MQT', 'TX', 'MMQQ', 'MQTTX'])
            return {'backend': be, 'rcpts': list(range(nr)),
                    'outcomes': qh.gen_history(rng, nr, rng.randint(1, 6), kinds, nreplies=3),
                    'backoff': qh.gen_backoff(rng, 5), 'sender': rng.random() < 0.8, 'factory': True,
                    'pools': rng.choice([[None, None]] * 7 + [[2, 2], [1, 2], [1, 1]])}
        yield mk
    for j in range(200 if tier == 'quick' else 4000):
        def mk(j=j):
            rng = rng_for(seed, 'c01f', j)
            nr = rng.choice([2, 3, 3, 4])
            return {'backend': ['dict', 'disk', 'dict', 'cloud'][j % 4], 'rcpts': list(range(nr)),
                    'outcomes': qh.gen_history(rng, nr, rng.randint(1, 4), rng.choice(['MQ', 'MQPT', 'MQT']), nreplies=2),
                    'backoff': qh.gen_backoff(rng, 3), 'sender': True, 'factory': True, 'pools': [None, None],
                    'store_fail': [rng.choice(['set_recipients_delivered', 'set_timestamp', 'increment_attempts', 'remove']), rng.choice([0, 0, 1])]}
        yield mk
    for j in range(40 if tier == 'quick' else 800):
        def mk(j=j):
            rng = rng_for(seed, 'c01s', j)
            nd = rng.choice([2, 2, 3])
            doms = ['d%d.example' % i for i in range(nd)]
            return {'kind': 'splitorder', 'domains': doms + ([doms[0]] if rng.random() < 0.3 else []),
                    'delays': [rng.choice([0, 0.004, 0.008, 0.012]) for _ in range(nd)], 'defer': sorted(rng.sample(doms, rng.randint(0, nd - 1)))}
        yield mk
    for j in range(60 if tier == 'quick' else 1200):
        def mk(j=j):
            rng = rng_for(seed, 'c01r', j)
            n = rng.randint(2, 8)
            be = ['disk', 'disk', 'redis', 'cloud'][j % 4]
            fails = sorted(rng.sample(range(n), rng.choice([0, 1, 1, 2]))) if be == 'disk' else []
            return {'kind': 'restart', 'backend': be, 'n': n, 'fail_meta_at': fails, 'stray_tmp': rng.random() < 0.5,
                    'garbage_meta': be == 'disk' and rng.random() < 0.3, 'seed': j}
        yield mk


def run_splitorder(case, model):
    """One enqueue that the policies split into several envelopes, on a storage whose writes yield and finish in another order than
    they were started; the parts get different relay outcomes. Every recipient must be delivered exactly once and nothing may stay."""
    import gevent
    from slimta.queue import Queue
    from slimta.queue.dict import DictStorage
    from slimta.policy.split import RecipientDomainSplit
    from slimta.relay import Relay, TransientRelayError
    from slimta.envelope import Envelope
    from slimta.smtp.reply import Reply
    try:
        gevent.get_hub().exception_stream = None
    except Exception:
        pass
    delays = list(case['delays'])

    class Store(DictStorage):
        def write(self, envelope, timestamp):
            d = delays.pop(0) if delays else 0
            gevent.sleep(d)
            return DictStorage.write(self, envelope, timestamp)
    seen = []          # (recipients, outcome)
    tries = {}

    class R(Relay):
        def attempt(self, envelope, attempts):
            key = tuple(envelope.recipients)
            n = tries.get(key, 0)
            tries[key] = n + 1
            dom = envelope.recipients[0].split('@')[1]
            if dom in case['defer'] and n == 0:
                seen.append((key, 'temp'))
                raise TransientRelayError('later', Reply('450', '4.0.0 later'))
            seen.append((key, 'ok'))
            return None
    store = Store()
    q = Queue(store, R(), backoff=lambda env, attempts: 0)
    q.add_policy(RecipientDomainSplit())
    q.start()
    rcpts = ['u%d@%s' % (i, d) for i, d in enumerate(case['domains'])]
    env = Envelope('sender@example.com', rcpts)
    env.parse(b'Subject: split\r\n\r\nbody\r\n')
    hits = []
    try:
        res = q.enqueue(env)
        accepted = [r for e, i in res if not isinstance(i, BaseException) for r in e.recipients]
        for _ in range(300):
            gevent.sleep(0.005)
            if not store.env_db and all(sum(1 for k, o in seen if o == 'ok' and r in k) >= 1 for r in accepted):
                break
        gevent.sleep(0.02)
        for r in accepted:
            n_ok = sum(1 for k, o in seen if o == 'ok' and r in k)
            if n_ok != 1:
                hits.append(hit('c01.split-message-recipient-not-delivered-once', 'a recipient of a message split into several envelopes was delivered %d times '
                                '(and the queue is %s)' % (n_ok, 'empty' if not store.env_db else 'not empty'),
                                observed={'recipient': r, 'attempts': seen[:8]}, expected=1))
                break
        if not hits and store.env_db:
            hits.append(hit('c01.split-message-left-in-storage', 'everything was delivered but an envelope is still stored', observed=len(store.env_db)))
    finally:
        q.kill()
    key = ('splitorder', tuple(case['domains']), tuple(case['delays']), tuple(case['defer']))
    return CaseResult(None, hits, key, ['splitorder'])


def run_restart(case, model):
    """Accept messages, restart over the same persisted state, require every accepted message to be attempted."""
    import gevent
    from slimta.queue import Queue, QueueError
    from slimta.relay import Relay
    from slimta.envelope import Envelope
    from harness.props.c15 import Backend
    try:
        gevent.get_hub().exception_stream = None
    except Exception:
        pass
    be = Backend(case['backend'])
    hits = []
    accepted = {}
    try:
        st = be.store
        q1 = Queue(st, None)
        if case['backend'] == 'disk':
            real_write_meta = st.ops.write_meta
            counter = {'n': 0}

            def write_meta(id, meta):
                k = counter['n']
                counter['n'] += 1
                if k in case['fail_meta_at']:
                    raise OSError(28, 'No space left on device')
                return real_write_meta(id, meta)
            st.ops.write_meta = write_meta
        for k in range(case['n']):
            env = Envelope('s%d@example.com' % k, ['r%d@example.com' % k])
            env.parse(b'Subject: m%d\r\n\r\nbody\r\n' % k)
            try:
                res = q1.enqueue(env)
            except OSError:
                continue
            for _, id in res:
                if not isinstance(id, BaseException):
                    accepted[id] = k
        if case['backend'] == 'disk':
            if case.get('stray_tmp'):
                open(os.path.join(be.tmp, 'tmp', 'tmpstray123'), 'wb').write(b'half a file')
            if case.get('garbage_meta'):
                # a meta file whose envelope never made it and whose content is cut short: must not stop the others
                open(os.path.join(be.tmp, 'meta', '0' * 32 + '.meta'), 'wb').write(b'\x80\x04\x95')
        # ---- restart
        if case['backend'] == 'disk':
            from slimta.diskstorage import DiskStorage
            st2 = DiskStorage(os.path.join(be.tmp, 'env'), os.path.join(be.tmp, 'meta'), os.path.join(be.tmp, 'tmp'))
        elif case['backend'] == 'redis':
            from slimta.redisstorage import RedisStorage
            st2 = RedisStorage(port=st.redis.connection_pool.connection_kwargs['port'], prefix=st.prefix)
        else:
            from slimta.cloudstorage import CloudStorage
            st2 = CloudStorage(st.obj_store)
        seen = {}

        class R(Relay):
            def attempt(self, envelope, attempts):
                seen[envelope.sender] = seen.get(envelope.sender, 0) + 1
                return None
        q2 = Queue(st2, R(), backoff=lambda env, attempts: 0)
        q2.start()
        want = set('s%d@example.com' % k for k in accepted.values())
        for _ in range(400):
            gevent.sleep(0.005)
            if want <= set(seen):
                break
        gevent.sleep(0.02)
        q2.kill()
        missing = sorted(want - set(seen))
        if missing:
            hits.append(hit('c01.accepted-message-not-attempted-after-restart.' + case['backend'],
                            'a message whose enqueue had returned an id was never attempted by the queue started over the same storage',
                            observed={'missing': missing[:4], 'accepted': len(want), 'attempted': len(seen)}))
    finally:
        be.close()
    tags = ['restart', 'restart-' + case['backend']]
    if case['fail_meta_at']:
        tags.append('restart-orphan-envelope')
    key = ('restart', case['backend'], case['n'], tuple(case['fail_meta_at']), case['stray_tmp'], case['garbage_meta'])
    return CaseResult(None, hits, key, tags)


def run_case(case, model):
    if case.get('kind') == 'splitorder':
        return run_splitorder(case, model)
    if case.get('kind') == 'restart':
        return run_restart(case, model)
    return qh.run_case(case, model, {'C01'})


def sched_cases(tier, seed):
    """Scheduler runs (the harness of C12: virtual clock, held relay answers with per-recipient verdicts in mapping / reversed
    mapping / sequence form, held storage calls, flushes, announcements, bounded pools), replayed through the composed queue machine
    (Model/QueueM.lean: scheduler + storage contents + ledger + bounces) and watched by the C01 monitors over what the relay, the
    bounce factory and the storage saw."""
    from harness.props import c12
    for j in range(2500 if tier == 'quick' else 40000):
        def mk(j=j):
            rng = rng_for(seed, 'c01q', j)
            return {'sched': True, 'script': None, 'seed': rng.randrange(1 << 30), 'backoff': rng.choice(c12.BACKOFFS), 'preload': rng.choice([0, 0, 1, 2]),
                    'pools': rng.choice([None, None, None, [3, 3]]), 'nmsg': rng.choice([1, 2, 3, 4]), 'steps': rng.choice([10, 16, 24, 32]),
                    'holds': rng.random() < 0.4, 'idorder': rng.choice(['asc', 'desc']), 'stale': rng.random() < 0.3}
        yield mk


_base_cases = cases


def cases(tier, seed, phase):          # noqa: F811  (the scheduler scenarios are appended)
    for c in _base_cases(tier, seed, phase):
        yield c
    for c in sched_cases(tier, seed):
        yield c


_base_run_case = run_case


def run_case(case, model):          # noqa: F811
    if case.get('sched'):
        from harness.core import CaseResult
        from harness.props import c12
        r = c12.run_case(case, model)
        hits = [h for h in r.hits if h['signature'].startswith('c01.')]
        return CaseResult(r.mismatch, hits, ('sched',) + tuple(r.key) if r.key else None, ['sched'] + [t for t in r.tags if t.startswith('label:') or t.startswith('outcome:')])
    return _base_run_case(case, model)
