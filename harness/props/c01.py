"""C01 — accepted mail is never lost: every recipient reaches a final disposition.

Part 1 (this module): relay outcome histories (whole-message and per-recipient successes, transient and permanent
failures, unexpected exceptions; backoff tables that stop granting retries) on all four storage backends with the real
Queue, compared with the Lean attempt model (Model/Attempt.lean) and checked against the conservation ledger.
"""
from harness.core import rng_for
from harness.props import _queuehist as qh

RULE = ('seeded outcome histories of 1..6 attempts over 1..5 recipients mixing None/Reply, mapping, sequence, Transient, '
        'Permanent and unexpected exceptions, backoff tables ending in None, null and non-null sender, on dict, disk, '
        'redis and cloud backends, unbounded and bounded pools. distinct = distinct case descriptor; non-trivial = '
        'at least one attempt.')
BUDGET_S = {'quick': 170, 'thorough': 1500}


def cases(tier, seed, phase):
    n = 2000 if tier == 'quick' else 40000
    for j in range(n):
        def mk(j=j):
            rng = rng_for(seed, 'c01', j)
            nr = rng.choice([1, 2, 3, 3, 4, 5])
            be = qh.BACKENDS[j % 4] if j % 3 else 'dict'
            kinds = rng.choice(['MQSPTX', 'MQT', 'TX', 'MMQQ', 'MQTTX'])
            return {'backend': be, 'rcpts': list(range(nr)),
                    'outcomes': qh.gen_history(rng, nr, rng.randint(1, 6), kinds, nreplies=3),
                    'backoff': qh.gen_backoff(rng, 5), 'sender': rng.random() < 0.8, 'factory': True,
                    'pools': rng.choice([[None, None]] * 7 + [[2, 2], [1, 2], [1, 1]])}
        yield mk


def run_case(case, model):
    return qh.run_case(case, model, {'C01'})
