"""C10 — the pipelining client pairs every reply with the command that caused it.

Implementation: real slimta.smtp.client.Client / LmtpClient over a scripted socket that already holds the whole reply
script (so reading past the last owed reply is observable). Model: `client run` of the Lean driver (Model/Client.lean).
"""
import itertools

from harness.core import CaseResult, hit, hx, hxl, rng_for
from harness.fakes.sock import ScriptSocket, WouldBlock, cut

RULE = ('method sequences over {banner, EHLO/LHLO, HELO, MAIL, RCPT, DATA, send_data, send_empty_data, RSET, QUIT, custom, '
        'get_reply} (all sequences up to a length bound after banner+EHLO with and without PIPELINING, SMTP and LMTP; seeded '
        'longer ones) x reply scripts giving the k-th reply a code class in {2,3,4,5}xx, 1..3 text lines and a text that names '
        'k, plus two surplus replies, x segmentations of the reply stream. distinct = distinct (protocol, methods, script, '
        'cuts); non-trivial = at least one command after the greeting.')
BUDGET_S = {'quick': 160, 'thorough': 1500}

METHODS = ['mail', 'rcpt', 'rcpt', 'data', 'senddata', 'sendempty', 'rset', 'quit', 'custom', 'getreply', 'helo']


def reply_bytes(k, cls, nlines, esc):
    code = {2: '250', 3: '354', 4: '450', 5: '550'}[cls]
    lines = []
    for j in range(nlines):
        t = 'r%d line%d' % (k, j)
        if j == 0 and esc and cls in (2, 4, 5):
            t = '%d.1.%d %s' % (cls, k % 10, t)
        lines.append(t)
    out = b''
    for j, t in enumerate(lines):
        out += ('%s%s%s\r\n' % (code, '-' if j < len(lines) - 1 else ' ', t)).encode()
    return out, code


def gen_script(rng, n, pipelining, lmtp):
    """Replies: 0 = banner, 1 = EHLO/LHLO (advertising PIPELINING or not), then arbitrary."""
    reps = [b'220 banner r0\r\n']
    ehlo = b'250-greeting r1\r\n' + (b'250-PIPELINING\r\n' if pipelining else b'250-8BITMIME\r\n') + b'250 SIZE 1000\r\n'
    reps.append(ehlo)
    for k in range(2, n + 2):
        cls = rng.choice([2, 2, 2, 3, 4, 5])
        reps.append(reply_bytes(k, cls, rng.choice([1, 1, 2, 3]), rng.random() < 0.4)[0])
    return reps


def cases(tier, seed, phase):
    depth = 4 if tier == 'quick' else 5
    idx = 0
    alphabet = ['mail', 'rcpt', 'data', 'senddata', 'rset', 'quit', 'custom', 'sendempty']
    for lmtp in (False, True):
        for pipelining in (True, False):
            for d in range(1, depth + 1):
                for seq in itertools.product(alphabet, repeat=d):
                    idx += 1
                    if d == depth and (idx % (3 if tier == 'quick' else 1)):
                        continue
                    rng = rng_for(seed, 'c10', idx)
                    ms = ['banner', 'lhlo' if lmtp else 'ehlo'] + list(seq)
                    reps = gen_script(rng, len(ms) + 6, pipelining, lmtp)
                    stream_len = sum(map(len, reps))
                    cuts = sorted(rng.sample(range(1, stream_len), min(rng.choice([0, 1, 3, 6]), stream_len - 1)))
                    yield {'lmtp': lmtp, 'methods': ms, 'replies': [r.hex() for r in reps], 'cuts': cuts}
    for lmtp in (False, True):
        for pipelining in (True, False):
            for n in (1, 2, 3):
                for bad in range(2, 3 + n):
                    for cuts in ([], [7, 30], [25, 26, 60]):
                        yield {'kind': 'garbage', 'lmtp': lmtp, 'pipelining': pipelining, 'nrcpt': n, 'bad_at': bad, 'cuts': cuts}
    for j in range(2500 if tier == 'quick' else 40000):
        def mk(j=j):
            rng = rng_for(seed, 'c10r', j)
            lmtp = rng.random() < 0.5
            ms = ['banner', 'lhlo' if lmtp else 'ehlo']
            for _ in range(rng.randint(3, 12)):
                ms.append(rng.choice(METHODS + (['lhlo'] if lmtp else ['ehlo'])))
            if lmtp:
                ms = [m for m in ms if m not in ('helo', 'ehlo')]
            reps = gen_script(rng, len(ms) + 8, rng.random() < 0.6, lmtp)
            stream_len = sum(map(len, reps))
            mode = rng.randrange(3)
            cuts = [] if mode == 0 else list(range(1, stream_len)) if (mode == 1 and stream_len < 400) else \
                sorted(rng.sample(range(1, stream_len), min(8, stream_len - 1)))
            return {'lmtp': lmtp, 'methods': ms, 'replies': [r.hex() for r in reps], 'cuts': cuts, 'dup_rcpts': j % 4 == 3}
        yield mk


def rcpt_addr(case, slot):
    """The address of the RCPT command that owns reply slot `slot`; with dup_rcpts neighbouring slots share an address (an envelope may
    list a recipient twice: one RCPT command, one reply, one LMTP data reply each)."""
    return 'r%d@y' % (slot - slot % 2 if case.get('dup_rcpts') else slot)


def run_garbage(case, model):
    """One line of the reply stream is no reply at all. The call that meets it fails; the replies after it must still go to the
    commands that caused them (the relay client goes on with RSET / QUIT on such a connection)."""
    from slimta.smtp.client import Client, LmtpClient
    from slimta.smtp import BadReply
    n = case['nrcpt']
    lmtp = case['lmtp']
    reps = [b'220 r0 ready\r\n', b'250-r1 hello\r\n250 PIPELINING\r\n' if case['pipelining'] else b'250 r1 hello\r\n']
    for k in range(2, 2 + 1 + n):
        reps.append(b'250 r%d ok\r\n' % k)
    reps += [b'250 r%d reset\r\n' % (3 + n), b'221 r%d bye\r\n' % (4 + n)]
    bad = case['bad_at']
    reps[bad] = b'this is line r%d and no reply\r\n' % bad
    stream = b''.join(reps)
    sock = ScriptSocket(cut(stream, case['cuts']))
    cl = (LmtpClient if lmtp else Client)(sock, address=('srv', 25))
    objs = {}
    failures = 0
    calls = [('banner', cl.get_banner, ()), ('hello', cl.lhlo if lmtp else cl.ehlo, ('me',)), ('mail', cl.mailfrom, ('s@x',))]
    calls += [('rcpt', cl.rcptto, ('r%d@y' % i,)) for i in range(n)]
    calls += [('rset', cl.rset, ()), ('quit', cl.quit, ())]
    for k, (name, fn, args) in enumerate(calls):
        try:
            objs[k] = fn(*args)
        except BadReply:
            failures += 1
        except WouldBlock:
            break
    hits = []
    if failures != 1:
        hits.append(hit('c10.garbage-line-not-reported-once', 'a line that is no reply was not reported exactly once', observed=failures, expected=1))
    for k, r in sorted(objs.items()):
        if r.code is None:
            if k > bad and not (k == 1):
                hits.append(hit('c10.reply-lost-after-garbage', 'a command after the garbage line never got its reply', observed={'slot': k, 'method': calls[k][0]}))
                break
            continue
        raw = r.raw_message or ''
        if r.code != reps[k][:3].decode() or ('r%d ' % k) not in raw:
            hits.append(hit('c10.reply-paired-with-wrong-command', 'after a line that was no reply, a returned Reply holds another command\'s reply',
                            observed={'slot': k, 'method': calls[k][0], 'code': r.code, 'text': raw}, expected=reps[k].decode('latin-1')))
            break
    key = ('garbage', lmtp, case['pipelining'], n, bad, tuple(case['cuts']))
    return CaseResult(None, hits, key, ['garbage-line', 'pipelining' if case['pipelining'] else 'no-pipelining'])


def run_case(case, model):
    if case.get('kind') == 'garbage':
        return run_garbage(case, model)
    from slimta.smtp.client import Client, LmtpClient
    from slimta.smtp import BadReply, ConnectionLost
    reps = [bytes.fromhex(r) for r in case['replies']]
    stream = b''.join(reps)
    segs = cut(stream, case['cuts'])
    sock = ScriptSocket(segs)
    cl = (LmtpClient if case['lmtp'] else Client)(sock, address=('srv', 25))
    returned = []          # Reply objects in issue order (slot k = k-th object)
    data_slots = []
    data_addrs = []
    failed = '-'
    try:
        for m in case['methods']:
            if m == 'banner':
                returned.append(cl.get_banner())
            elif m == 'ehlo':
                returned.append(cl.ehlo('me'))
            elif m == 'lhlo':
                returned.append(cl.lhlo('me'))
            elif m == 'helo':
                returned.append(cl.helo('me'))
            elif m == 'mail':
                returned.append(cl.mailfrom('s@x'))
            elif m == 'rcpt':
                returned.append(cl.rcptto(rcpt_addr(case, len(returned))))
            elif m == 'data':
                returned.append(cl.data())
            elif m in ('senddata', 'sendempty'):
                r = cl.send_data(b'hello\r\n') if m == 'senddata' else cl.send_empty_data()
                if case['lmtp']:
                    base = len(returned)
                    data_slots.append(list(range(base, base + len(r))))
                    data_addrs.append([x[0] for x in r])
                    returned.extend(x[1] for x in r)
                else:
                    returned.append(r)
            elif m == 'rset':
                returned.append(cl.rset())
            elif m == 'quit':
                returned.append(cl.quit())
            elif m == 'custom':
                returned.append(cl.custom_command(b'XCUST', b'arg'))
            elif m == 'getreply':
                returned.append(cl.get_reply())
    except WouldBlock:
        failed = 'wouldBlock'
    except BadReply:
        failed = 'BadReply'
    except ConnectionLost:
        failed = 'connectionLost'
    except AttributeError:
        failed = 'AttributeError'
    except Exception as e:
        failed = 'other:' + type(e).__name__
    # ---- model
    pieces = list(sock.recvd) + list(sock.segments)
    m = model.ask('client run %d %s - %s' % (1 if case['lmtp'] else 0, ','.join(case['methods']), hxl(pieces)))
    filled = []
    for k, r in enumerate(returned):
        if r.code is not None:
            filled.append((k, r.code, r.message))
    # implementation order of filling = slot order (FIFO); canonical by slot
    mf, mrest = m.split(' | ')
    mfilled = []
    if mf != '-':
        for item in mf.split(';'):
            slot, c, t = item.split(':')
            mfilled.append((int(slot), bytes.fromhex(c).decode() if c != '-' else '', bytes.fromhex(t).decode('utf-8') if t != '-' else ''))
    minfo = dict(x.split('=', 1) for x in mrest.split(' '))
    # the model holds wire text; the Reply object shows it through its message property (ESC handling): compare through Reply
    from slimta.smtp.reply import Reply
    hello_slots = set()
    sl = 0
    for mth in case['methods']:
        if mth in ('ehlo', 'lhlo'):
            hello_slots.add(sl)
        if case['lmtp'] and mth in ('senddata', 'sendempty'):
            continue                     # variable number of slots: hello slots after it are found through the model below
        sl += 1
    if case['lmtp']:
        # recompute with the model's own slot numbering
        hello_slots = set()
        sl = 0
        di = 0
        dsl = [[int(x) for x in g.split(',')] if g not in ('-', 'e') else [] for g in minfo['data'].split('/')] if minfo['data'] != '-' else []
        for mth in case['methods']:
            if mth in ('senddata', 'sendempty'):
                sl += len(dsl[di]) if di < len(dsl) else 0
                di += 1
                continue
            if mth == 'lhlo':
                hello_slots.add(sl)
            sl += 1
    mview = []
    for slot, c, t in mfilled:
        r = Reply()
        r.code, r.message = c, t
        raw = r.raw_message
        if slot in hello_slots and c == '250':
            raw = raw.split('\r\n')[0]      # ehlo()/lhlo() keep only the greeting line as the message
        mview.append((slot, r.code, raw))
    iview = [(k, c, returned[k].raw_message) for k, c, _ in filled]
    rest = cl.io.recv_buffer + sock.unread()
    mismatch = None
    canon_i = {'filled': iview, 'failed': failed, 'rest': rest.hex() or '-', 'data': data_slots}
    canon_m = {'filled': mview, 'failed': minfo['failed'], 'rest': minfo['rest'],
               'data': [[int(x) for x in g.split(',')] if g not in ('-', 'e') else [] for g in minfo['data'].split('/')] if minfo['data'] != '-' else []}
    if canon_i != canon_m:
        mismatch = {'op': 'client run', 'impl': str(canon_i)[:900], 'model': str(canon_m)[:900]}
    # ---- monitor: slot k holds the k-th reply of the script; nothing beyond the owed replies was parsed
    hits = []
    for k, code, raw in iview:
        want_code = reps[k][:3].decode()
        if code != want_code or ('r%d' % k) not in (raw or ''):
            hits.append(hit('c10.reply-paired-with-wrong-command', 'a returned Reply holds another command\'s reply',
                            observed={'slot': k, 'method': None, 'code': code, 'text': raw}, expected=reps[k].decode('latin-1')))
            break
        # ... and all of it, once: the text lines of the script's k-th reply (every generated line carries a `line<j>` token), in order
        import re as _re
        want_lines = [x.decode() for x in _re.findall(rb'line\d+', reps[k])]
        if k in hello_slots and code == '250':
            want_lines = want_lines[:1]
        if _re.findall(r'line\d+', raw or '') != want_lines:
            hits.append(hit('c10.reply-text-not-the-servers', 'a returned Reply holds text lines other than those of the server\'s reply to that command (lost or repeated lines)',
                            observed={'slot': k, 'code': code, 'text': raw, 'cuts': case['cuts'][:8]}, expected=reps[k].decode('latin-1')))
            break
    if failed == 'BadReply' or failed.startswith('other:'):
        # every reply of the script is well formed: the client has no reason to reject one
        hits.append(hit('c10.well-formed-reply-rejected.' + failed.replace('other:', ''), 'the client failed on a script of well-formed replies',
                        observed={'failed': failed, 'filled': iview[-2:], 'cuts': case['cuts'][:8]}))
    nparsed = len(iview)
    owed = len(returned)
    consumed = len(stream) - len(rest)
    if consumed > sum(len(r) for r in reps[:owed]) and failed in ('-',):
        hits.append(hit('c10.reads-past-owed-replies', 'the client consumed reply bytes it was not owed',
                        observed={'consumed': consumed, 'owed_bytes': sum(len(r) for r in reps[:owed])}))
    if case['lmtp'] and failed == '-':
        # data replies are paired, in order, with exactly the recipients whose RCPT reply was 2xx
        slot = 0
        rcpts = []
        di = 0
        for mth in case['methods']:
            if mth in ('senddata', 'sendempty'):
                want = [rcpt_addr(case, s_) for s_ in rcpts if reps[s_][:1] == b'2']
                if di < len(data_addrs) and data_addrs[di] != want:
                    hits.append(hit('c10.lmtp-data-replies-mispaired', 'LMTP data replies are not paired with exactly the accepted recipients',
                                    observed=data_addrs[di], expected=want))
                    break
                slot += len(want)
                di += 1
                rcpts = []
            else:
                if mth == 'rcpt':
                    rcpts.append(slot)
                elif mth == 'rset' or (mth == 'lhlo' and reps[slot][:3] == b'250'):
                    rcpts = []          # an LHLO that was not accepted does not start a new session
                slot += 1
    tags = ['lmtp' if case['lmtp'] else 'smtp', 'pipelining' if b'PIPELINING' in reps[1] else 'no-pipelining',
            'failed=' + failed, 'len<=5' if len(case['methods']) <= 5 else 'len>5', 'cuts=%s' % ('0' if not case['cuts'] else 'some')]
    key = (case['lmtp'], tuple(case['methods']), tuple(case['replies']), tuple(case['cuts']), bool(case.get('dup_rcpts')))
    return CaseResult(mismatch, hits, key, tags)
