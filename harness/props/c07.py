"""C07 — the SMTP server enforces command order and resets transaction state.

Implementation: real slimta.smtp.server.Server over a scripted socket, recording handler object applying scripted
validator verdicts. Model: `server run` of the Lean driver (Model/Server.lean).
"""
import itertools

from harness.core import CaseResult, hit, rng_for
from harness import serverdrv as sd

RULE = ('command sequences over an alphabet of 38 command lines (EHLO/HELO, MAIL and RCPT well-formed and malformed in '
        'several ways, SIZE parameters, DATA + body, RSET, NOOP, QUIT, STARTTLS, AUTH variants, unknown, empty, '
        'argument where none is allowed, non-UTF-8) x validator verdicts {accept, 450, 550, 421} at one callback x 5 '
        'configurations (4 extension sets, one with a handler-defined command): all sequences up to depth 3 after a fixed prefix reaching each server state, plus '
        'seeded long sessions. distinct = distinct (config, lines, verdicts); non-trivial = at least one command.')
BUDGET_S = {'quick': 160, 'thorough': 1500}

PLAIN_OK = b'AUTH PLAIN AHVzZXIAcGFzcw=='       # \0user\0pass
TOKENS = [
    b'EHLO client.example', b'HELO client.example', b'EHLO', b'ehlo  spaced.example  ', b'EHLO \xff\xfe',
    b'MAIL FROM:<s@x>', b'MAIL FROM:<s@x> SIZE=5', b'MAIL FROM:<s@x> SIZE=99999', b'MAIL FROM:<s@x> SIZE=100', b'MAIL FROM:<s@x> SIZE=45', b'MAIL FROM:<s@x> SIZE=abc', b'MAIL FROM:<s@x> BODY=8BITMIME size',
    b'MAIL FROM:s@x', b'mail from:  <"a>b"@x> x-k=v', b'MAIL', b'MAIL FROM:<>', b'MAIL FROM:<s\xff@x>', b'MAIL TO:<s@x>',
    b'RCPT TO:<r@y>', b'RCPT TO:<r2@y> NOTIFY=NEVER', b'RCPT TO:r@y', b'RCPT', b'rcpt to:<"q>q"@y>',
    b'DATA', b'DATA now', b'BODY',
    b'RSET', b'RSET x', b'NOOP', b'noop', b'NOOP x', b'QUIT', b'QUIT x', b'Data ',
    b'STARTTLS', b'STARTTLS x', PLAIN_OK, b'AUTH', b'AUTH BOGUS', b'VRFY x', b'', b'123 456', b'XPING', b'xping  now ',
]
BODY = b'Subject: hi\r\n\r\nMAIL FROM:<evil@x>\r\n..dot\r\n.\r\n'
PREFIXES = [
    [], [b'EHLO a'], [b'HELO a'], [b'EHLO a', b'MAIL FROM:<s@x>'], [b'EHLO a', b'MAIL FROM:<s@x>', b'RCPT TO:<r@y>'],
    [b'EHLO a', b'MAIL FROM:<s@x>', b'RCPT TO:<r@y>', b'DATA', b'BODY'], [b'EHLO a', b'STARTTLS'], [b'EHLO a', b'STARTTLS', b'EHLO b', PLAIN_OK],
]
CONFIGS = [
    {'starttls': False, 'auth': False, 'maxsize': None},
    {'starttls': True, 'auth': True, 'maxsize': None},
    {'starttls': False, 'auth': False, 'maxsize': 100},
    {'starttls': True, 'auth': False, 'maxsize': 20},
    {'starttls': False, 'auth': False, 'maxsize': 45},      # the size of BODY with its end-of-data line: exactly at the limit is accepted
    {'starttls': False, 'auth': False, 'maxsize': None, 'custom': [b'XPING']},   # the handler object implements XPING
]


def build(lines):
    """Clear-text stream up to and including the first STARTTLS line, then the TLS stream."""
    clear, tls = b'', b''
    cur = 'clear'
    for l in lines:
        data = BODY if l == b'BODY' else l + b'\r\n'
        if cur == 'clear':
            clear += data
            if l.upper() == b'STARTTLS':
                cur = 'tls'
        else:
            tls += data
    return clear, tls


def cases(tier, seed, phase):
    depth = 2 if tier == 'quick' else 3
    idx = 0
    for ci, cfg in enumerate(CONFIGS):
        for pre in PREFIXES:
            for d in range(1, depth + 1):
                for seq in itertools.product(range(len(TOKENS)), repeat=d):
                    idx += 1
                    if d == depth and tier == 'quick' and (idx + ci) % 3:
                        continue
                    lines = list(pre) + [TOKENS[t] for t in seq]
                    ncb = len(lines) + 3
                    vs = [[None] * ncb]
                    rng = rng_for(seed, 'c07', idx)
                    v = [None] * ncb
                    v[rng.randrange(ncb)] = rng.choice([450, 550, 421])
                    vs.append(v)
                    for verd in vs:
                        yield {'cfg': ci, 'lines': [l.hex() for l in lines], 'verdicts': verd}
    for j in range(600 if tier == 'quick' else 12000):
        yield (lambda j=j: gen_edge_case(rng_for(seed, 'c07e', j)))
    for j in range(3000 if tier == 'quick' else 60000):
        def mk(j=j):
            rng = rng_for(seed, 'c07r', j)
            n = rng.randint(4, 14)
            lines = [rng.choice(TOKENS) for _ in range(n)]
            verd = [rng.choice([None, None, None, None, 450, 550, 250, 421, 221]) for _ in range(n + 3)]
            return {'cfg': rng.randrange(len(CONFIGS)), 'lines': [l.hex() for l in lines], 'verdicts': verd}
        yield mk


def gen_edge_case(rng):
    """A session for the real SmtpEdge (SmtpSession + Server): several transactions, some refused at the content stage."""
    script = [['EHLO']]
    k = 0
    for _ in range(rng.randint(1, 4)):
        k += 1
        script.append(['MAIL', 's%d@example.com' % k])
        for j in range(rng.choice([0, 1, 1, 2, 3])):
            script.append(['RCPT', 'r%d.%d@example.com' % (k, j)])
        r = rng.random()
        if r < 0.75:
            script.append(['DATA', rng.choice(['short', 'short', 'long'])])
        elif r < 0.85:
            script.append(['RSET'])
        elif r < 0.92:
            script.append(['EHLO'])
        if rng.random() < 0.2:
            script.append(['NOOP'])
    script.append(['QUIT'])
    return {'kind': 'edge', 'script': script, 'maxsize': rng.choice([None, 40, 40]),
            'reject_data_at': rng.choice([None, None, 1, 2]), 'reject_data_code': rng.choice(['550', '450']),
            'reject_rcpt': rng.choice([None, None, 'r1.0@example.com', 'r2.1@example.com'])}


BODIES = {'short': b'Subject: s\r\n\r\nhi\r\n', 'long': b'Subject: long one\r\n\r\n' + b'0123456789' * 6 + b'\r\n'}


def run_edge(case, model):
    """Black-box oracle over replies: what the queue is handed must be exactly the sender and the recipients accepted (250) since the
    last reset, for every message answered 250; nothing else ever reaches the queue."""
    import gevent
    from slimta.edge.smtp import SmtpEdge, SmtpValidators
    from harness.fakes.sock import ScriptSocket, WouldBlock
    got = []

    class Q(object):
        def enqueue(self, envelope):
            got.append((envelope.sender, list(envelope.recipients)))
            return [(envelope, 'id%d' % len(got))]
    counters = {'data': 0}

    verdicts = []       # one entry per validator call, in order: the code the validator put into the reply, or None

    class V(SmtpValidators):
        # every callback SmtpSession shows the validators is counted (Model/Server.lean's verdict index): banner, ehlo, mail, rcpt,
        # data, have_data — RSET, NOOP and QUIT are never shown to them
        def handle_banner(self, reply, address):
            verdicts.append(None)

        def handle_ehlo(self, reply, ehlo_as):
            verdicts.append(None)

        def handle_mail(self, reply, sender, params):
            verdicts.append(None)

        def handle_data(self, reply):
            verdicts.append(None)

        def handle_rcpt(self, reply, recipient, params):
            verdicts.append(None)
            if recipient == case['reject_rcpt']:
                reply.code = '550'
                reply.message = '5.1.1 no such user'
                verdicts[-1] = 550

        def handle_have_data(self, reply, data):
            verdicts.append(None)
            counters['data'] += 1
            if counters['data'] == case['reject_data_at']:
                reply.code = case['reject_data_code']
                reply.message = '%s.6.0 content refused' % case['reject_data_code'][0]
                verdicts[-1] = int(case['reject_data_code'])
    lines = []
    for c in case['script']:
        if c[0] == 'EHLO':
            lines.append(b'EHLO client.example\r\n')
        elif c[0] == 'MAIL':
            lines.append(b'MAIL FROM:<%s>\r\n' % c[1].encode())
        elif c[0] == 'RCPT':
            lines.append(b'RCPT TO:<%s>\r\n' % c[1].encode())
        elif c[0] == 'DATA':
            lines.append(b'DATA\r\n' + BODIES[c[1]] + b'.\r\n')
        else:
            lines.append(c[0].encode() + b'\r\n')
    sock = ScriptSocket([b''.join(lines)], eof=True)
    edge = SmtpEdge(None, Q(), max_size=case['maxsize'], validator_class=V, hostname='edge.example')
    import slimta.edge.smtp as esmtp
    edge_session_envelope = {}
    RealSession = esmtp.SmtpSession

    class TappedSession(RealSession):
        def __init__(self, *a, **kw):
            RealSession.__init__(self, *a, **kw)
            edge_session_envelope['session'] = self
    esmtp.SmtpSession = TappedSession
    try:
        edge.handle(sock, ('127.0.0.1', 40000))
    except WouldBlock:
        pass
    finally:
        esmtp.SmtpSession = RealSession
    if 'session' in edge_session_envelope:
        edge_session_envelope['env'] = edge_session_envelope['session'].envelope
    # replies, in order
    codes = []
    for l in b''.join(sock.sent).split(b'\r\n'):
        if len(l) >= 4 and l[:3].isdigit() and l[3:4] == b' ':
            codes.append(l[:3].decode())
    it = iter(codes)
    hits = []
    exp = []
    sender, rcpts = None, []
    try:
        next(it)        # banner
        for c in case['script']:
            r = next(it)
            if c[0] == 'EHLO':
                if r == '250':
                    sender, rcpts = None, []
            elif c[0] == 'MAIL':
                if r == '250':
                    sender, rcpts = c[1], []
            elif c[0] == 'RCPT':
                if r == '250':
                    rcpts.append(c[1])
            elif c[0] == 'RSET':
                if r == '250':
                    sender, rcpts = None, []
            elif c[0] == 'DATA':
                if r == '354':
                    r2 = next(it)
                    if r2 == '250':
                        exp.append((sender, list(rcpts)))
                    sender, rcpts = None, []
                else:
                    for _ in range(BODIES[c[1]].count(b'\r\n') + 1):
                        next(it)       # the body lines were taken for (unknown) commands: one reply each
    except StopIteration:
        hits.append(hit('c07.edge.fewer-replies-than-commands', 'the edge session produced fewer replies than command lines', observed=codes[-6:]))
    if not hits and got != exp:
        hits.append(hit('c07.edge.queue-received-other-envelope', 'the queue was handed a sender / recipients other than those accepted since the last '
                        'reset (or a message that was not answered 250, or none for one that was)', observed=got[:4], expected=exp[:4]))
    # the same byte stream through Model/Server.lean in session mode (the handler object is SmtpSession: RSET / NOOP / QUIT consume no
    # verdict), with the verdicts the validators really gave, in the order they were asked: same replies, same final state of
    # SmtpSession's envelope (the theorems of Proofs/C07.lean about that envelope are about this configuration)
    mismatch = None
    wire = b''.join(lines)
    line = 'server run 0 0 %s 0::S %s - - - %s none' % ('-' if case['maxsize'] is None else case['maxsize'],
                                                       ','.join('-' if v is None else str(v) for v in verdicts) or '-', wire.hex())
    m = model.ask(line)
    mcodes = [w[1:] for w in m.split(' | ')[0].split(' ') if w.startswith('r')]
    if mcodes != codes:
        mismatch = {'op': 'server run (session mode)', 'what': 'reply codes of a real SmtpEdge session', 'impl': ' '.join(codes), 'model': ' '.join(mcodes), 'case': line[:400]}
    else:
        env = edge_session_envelope.get('env')
        ienv = '-' if env is None else (env.sender.encode('utf-8').hex() or '-') + '>' + (','.join(r.encode('utf-8').hex() for r in env.recipients) or '-')
        menv = [w[4:] for w in m.split(' | ')[-1].split(' ') if w.startswith('env=')]
        if 'env' in edge_session_envelope and menv and menv[0] != ienv:
            mismatch = {'op': 'server run (session mode)', 'what': "SmtpSession's envelope at the end of the session", 'impl': ienv, 'model': menv[0], 'case': line[:400]}
    tags = ['edge-session', 'edge-messages=%d' % len(exp)]
    if any(x in codes for x in ('552', '550', '450')):
        tags.append('edge-content-or-rcpt-refused')
    return CaseResult(mismatch, hits, ('edge', repr(case['script']), case['maxsize'], case['reject_data_at'], case['reject_data_code'], case['reject_rcpt']), tags)


def monitor_order(events, commands_seen):
    """The property, over implementation observables only."""
    hits = []
    state = 'Fresh'
    closed = False
    pending_cb = None
    finals = 0
    for i, ev in enumerate(events):
        if closed and ev != 'cCLOSE':
            hits.append(hit('c07.activity-after-close', 'a reply or callback followed a 221/421 reply', observed=events[max(0, i - 4):i + 1]))
            break
        if ev[0] == 'c':
            name = ev[1:].split(':')[0]
            if name == 'MAIL' and state != 'Ready':
                hits.append(hit('c07.mail-callback-out-of-order', 'MAIL callback outside the ready state', observed=[state, events[max(0, i - 6):i + 1]]))
                break
            if name == 'RCPT' and state not in ('HaveSender', 'HaveRcpt'):
                hits.append(hit('c07.rcpt-callback-out-of-order', 'RCPT callback without an accepted sender', observed=[state, events[max(0, i - 6):i + 1]]))
                break
            if name == 'DATA' and state != 'HaveRcpt':
                hits.append(hit('c07.data-callback-out-of-order', 'DATA callback without an accepted recipient', observed=[state, events[max(0, i - 6):i + 1]]))
                break
            if name == 'HAVEDATA' and state != 'InData':
                hits.append(hit('c07.havedata-callback-out-of-order', 'message-received callback outside DATA', observed=[state, events[max(0, i - 6):i + 1]]))
                break
            if name in ('EHLO', 'HELO') and state == 'Fresh':
                hits.append(hit('c07.ehlo-before-banner', 'EHLO/HELO callback before the greeting was accepted', observed=events[:i + 1]))
                break
            if name == 'TLS':
                state = 'Greeted'
            elif name == 'HAVEDATA':
                state = 'Ready'
                pending_cb = name
            elif name != 'CLOSE':
                pending_cb = name
        else:
            code = ev[1:]
            if code not in ('354', '334'):
                finals += 1
            elif code == '354' and pending_cb == 'DATA':
                state = 'InData'
            if code in ('221', '421'):
                closed = True
            if pending_cb == 'BANNER' and code == '220':
                state = 'Greeted'
            elif pending_cb in ('EHLO', 'HELO') and code == '250':
                state = 'Ready'
            elif pending_cb == 'MAIL' and code == '250':
                state = 'HaveSender'
            elif pending_cb == 'RCPT' and code == '250':
                state = 'HaveRcpt'
            elif pending_cb == 'RSET' and code == '250' and state not in ('Fresh', 'Greeted'):
                state = 'Ready'
            pending_cb = None
    return hits, finals


_STOCK = {}


def stock_replies():
    """The module-level replies of slimta.smtp.reply (the server's own error replies), as (code, message)."""
    import slimta.smtp.reply as rp
    return {n: (o.code, o.message) for n, o in vars(rp).items() if isinstance(o, rp.Reply)}


def run_case(case, model):
    if case.get('kind') == 'edge':
        return run_edge(case, model)
    if not _STOCK:
        _STOCK.update(stock_replies())
    cfg = CONFIGS[case['cfg']]
    lines = [bytes.fromhex(l) for l in case['lines']]
    clear, tls = build(lines)
    tls_streams = [[tls]] if tls else ([[]] if cfg['starttls'] else [])
    res = sd.run_server(cfg, case['verdicts'], b'', [clear] if clear else [], tls_streams)
    req = sd.model_request(cfg, case['verdicts'], b'', [clear] if clear else [], tls_streams, sd.candidate_lines(clear + tls))
    m = model.ask(req)
    canon = '%s | %s | %s' % (' '.join(res['events']) or '-', res['ending'], res['state'])
    mparts = m.split(' | ')
    mcanon = m
    if len(mparts) == 3:
        mstate = ' '.join(x for x in mparts[2].split(' ') if not x.startswith('env=') and not x.startswith('rest='))
        mcanon = '%s | %s | %s' % (mparts[0], mparts[1], mstate)
    mismatch = None
    if canon != mcanon:
        mismatch = {'op': 'server run', 'impl': canon, 'model': mcanon, 'exc': res.get('exc')}
    hits, finals = monitor_order(res['events'], res['commands'])
    # exactly one final reply per command line (and one for the greeting)
    expected_finals = 1 + res['commands']
    if res['events'] and res['events'][-1] in ('r354', 'r334'):
        expected_finals -= 1      # the exchange is still in progress: its final reply is not due yet
    if res['ending'] in ('closed', 'aborted', 'wouldBlock', 'connectionLost') and finals != expected_finals and not hits:
        # after a close code the loop stops before reading another command
        hits.append(hit('c07.final-reply-count', 'a command line did not get exactly one final reply',
                        observed={'final_replies': finals, 'commands_read': res['commands'], 'events': res['events'][-8:]},
                        expected=expected_finals))
    if res['ending'] == 'aborted' and res['events'] and res['events'][-1] not in ('r421', 'r501'):
        hits.append(hit('c07.abort-without-reply', 'the session was aborted without a 421/501 reply', observed=res['events'][-4:]))
    # command names are case-insensitive: the same session with every command verb in upper case must be answered the same way
    # (reply codes and callbacks). Seeded change C07-x (a lower-case verb without an argument is not recognised) was reported by the
    # correspondence only; this is its failing input on the implementation alone.
    def upper_verb(l):
        i = 0
        while i < len(l) and (65 <= l[i] <= 90 or 97 <= l[i] <= 122):
            i += 1
        return l[:i].upper() + l[i:]
    up = [l if l == b'BODY' else upper_verb(l) for l in lines]
    if up != lines and not hits and b'BODY' not in lines:
        clear_u, tls_u = build(up)
        tls_streams_u = [[tls_u]] if tls_u else ([[]] if cfg['starttls'] else [])
        res_u = sd.run_server(cfg, case['verdicts'], b'', [clear_u] if clear_u else [], tls_streams_u)

        def shape(evs):
            return [e if e[0] == 'r' else e.split(':')[0] for e in evs]
        if shape(res_u['events']) != shape(res['events']) or res_u['ending'] != res['ending']:
            hits.append(hit('c07.command-case-changes-the-answer', 'the same session with its command verbs in upper case is answered differently',
                            observed={'as sent': shape(res['events'])[-10:], 'upper case': shape(res_u['events'])[-10:]}))
    now = stock_replies()
    if now != _STOCK:
        import slimta.smtp.reply as rp
        changed = sorted(n for n in _STOCK if now.get(n) != _STOCK[n])
        hits.append(hit('c07.stock-reply-changed', 'a session changed one of the server\'s own module-level replies; every later '
                        'session answers with the changed one', observed={n: now.get(n) for n in changed}, expected={n: _STOCK[n] for n in changed}))
        for n in changed:      # put it back so that the next case starts from the stock replies
            getattr(rp, n).code, getattr(rp, n).message = _STOCK[n]
    tags = ['cfg%d' % case['cfg'], 'end=' + res['ending'], 'len<=4' if len(lines) <= 4 else 'len<=8' if len(lines) <= 8 else 'len>8']
    if any(v is not None for v in case['verdicts']):
        tags.append('verdict-override')
    key = (case['cfg'], tuple(case['lines']), tuple(case['verdicts'])) if lines else None
    return CaseResult(mismatch, hits, key, tags)
