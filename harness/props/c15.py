"""C15 — every queue storage backend behaves like the same simple store.

Implementation: real DictStorage, DiskStorage (tmp dirs, real pyaio), RedisStorage (real redis-py against the
in-process mini redis), CloudStorage (fake object store following aws.py).
Model: `store inplace|accum` of the Lean driver (Model/Store.lean): the reference store and the two
delivered-recipient representations.
"""
import os
import shutil
import tempfile

from harness.core import CaseResult, hit, rng_for

RULE = ('operation sequences (write, set_timestamp, increment_attempts, set_recipients_delivered [single round per message, '
        'indexes in range, passed as a set like the queue does or as a list], get, remove, load) of length <= 40 over <= 5 '
        'messages, weighted towards valid ops plus a stream of ops on removed ids, run on each of the four backends (the dict backend also over real shelves, as its documentation suggests) '
        'sequentially and (for yielding backends) with ops on different ids overlapped in greenlets; ids abstracted to '
        'write order. distinct = distinct (backend, op sequence, overlap); non-trivial = at least one write.')

BUDGET_S = {'quick': 150, 'thorough': 1500}
BACKENDS = ['dict', 'disk', 'redis', 'cloud', 'shelve']
_REDIS = {}


def gen_ops(rng, n, malformed):
    ops = []
    live = []
    removed = []
    marked = set()
    left = {}
    nw = 0
    for _ in range(n):
        c = rng.random()
        if not live or (c < 0.18 and nw < 5):
            k = rng.randint(1, 5)
            ops.append(['w', nw, rng.randint(1, 5), 1000 + rng.randint(0, 50)])
            ops[-1][2] = k
            live.append(nw)
            nw += 1
            continue
        pool = live
        if malformed and removed and rng.random() < 0.25:
            pool = removed
        i = rng.choice(pool)
        c = rng.random()
        if c < 0.2:
            ops.append(['t', i, 1000 + rng.randint(0, 500)])
        elif c < 0.4:
            ops.append(['i', i])
        elif c < 0.55:
            # any number of marking rounds per message: the indexes of a round are positions in the recipient list as it stands after
            # the rounds before it (what Queue._handle_partial_relay hands over). (Until the fourth session a message got one round at
            # most: the model mutant `store-rounds-prepended` survived the campaign — tools/model_mutants.py.)
            nr = left.get(i)
            if nr is None:
                nr = left[i] = next(o[2] for o in ops if o[0] == 'w' and o[1] == i)
            if pool is removed or nr == 0:
                ops.append(['g', i])
            else:
                idxs = sorted(rng.sample(range(nr), rng.randint(0 if i not in marked else 1, max(1, nr - 1) if rng.random() < 0.7 else nr)))
                if rng.random() < 0.3:
                    rng.shuffle(idxs)
                form = rng.choice(['set', 'list'])
                if i not in marked and idxs and rng.random() < 0.15:
                    # a message whose delivered marks an EARLIER RELEASE wrote (redis: the pickled set of the first round, put into the
                    # hash directly; the backend still reads that format — seeded change C01-x dropped it; elsewhere an ordinary round)
                    form = 'legacy'
                ops.append(['d', i, idxs, form])
                left[i] = nr - len(idxs)
                marked.add(i)
        elif c < 0.8:
            ops.append(['g', i])
        elif c < 0.9:
            ops.append(['l'])
        else:
            ops.append(['r', i])
            if i in live:
                live.remove(i)
                removed.append(i)
    ops.append(['l'])
    for i in list(live)[:3]:
        ops.append(['g', i])
    return ops


def cases(tier, seed, phase):
    for j in range(40 if tier == 'quick' else 600):
        rng = rng_for(seed, 'c15w', j)
        yield {'kind': 'wait', 'backend': ['redis', 'cloud'][j % 2], 'writes': [[k, rng.choice([1, 2, 3]), 1000 + rng.randrange(0, 50)] for k in range(rng.randint(1, 5))],
               'reader_first': rng.random() < 0.5}
    n = 900 if tier == 'quick' else 12000
    for j in range(n):
        for b in BACKENDS:
            def mk(j=j, b=b):
                rng = rng_for(seed, 'c15', j)
                ops = gen_ops(rng, rng.randint(4, 40), malformed=(j % 5 == 0))
                return {'backend': b, 'ops': ops, 'overlap': (j % 4 == 1) and b not in ('dict', 'shelve'), 'orphans': 3 if (b == 'disk' and j % 3 == 0) else 0}
            yield mk


class Backend(object):
    def __init__(self, name):
        self.name = name
        self.tmp = None
        if name == 'dict':
            from slimta.queue.dict import DictStorage
            self.store = DictStorage()
        elif name == 'shelve':
            # the dict backend over two real shelves, the persistent configuration its documentation names: every lookup returns
            # a fresh unpickled copy, so an update that is not written back is lost
            import shelve
            from slimta.queue.dict import DictStorage
            self.tmp = tempfile.mkdtemp(prefix='verif_c15_')
            self.shelves = [shelve.open(os.path.join(self.tmp, 'env')), shelve.open(os.path.join(self.tmp, 'meta'))]
            self.store = DictStorage(self.shelves[0], self.shelves[1])
        elif name == 'disk':
            from slimta.diskstorage import DiskStorage
            self.tmp = tempfile.mkdtemp(prefix='verif_c15_')
            for d in ('env', 'meta', 'tmp'):
                os.mkdir(os.path.join(self.tmp, d))
            self.store = DiskStorage(os.path.join(self.tmp, 'env'), os.path.join(self.tmp, 'meta'), os.path.join(self.tmp, 'tmp'))
        elif name == 'redis':
            from harness.fakes.miniredis import MiniRedis
            from slimta.redisstorage import RedisStorage
            if 'srv' not in _REDIS:
                _REDIS['srv'] = MiniRedis()
                _REDIS['n'] = 0
            _REDIS['n'] += 1
            self.store = RedisStorage(port=_REDIS['srv'].port, prefix='c%d:' % _REDIS['n'])
        else:
            import gevent
            from harness.fakes.objstore import FakeObjectStore
            from slimta.cloudstorage import CloudStorage
            self.store = CloudStorage(FakeObjectStore(yield_each=lambda: gevent.sleep(0)))

    def close(self):
        for sh in getattr(self, 'shelves', []):
            try:
                sh.close()
            except Exception:
                pass
        if self.tmp:
            shutil.rmtree(self.tmp, ignore_errors=True)
        if self.name == 'redis':
            try:
                self.store.redis.connection_pool.disconnect()
            except Exception:
                pass


def make_env(k, nr):
    from slimta.envelope import Envelope
    env = Envelope('s%d@example.com' % k, ['r%d.%d@example.com' % (k, x) for x in range(nr)])
    env.parse(b'Subject: m%d\r\n\r\nbody %d \xff\r\n' % (k, k))
    return env


def canon_id(x):
    return x.decode('ascii') if isinstance(x, bytes) else x


def do_op(be, op, ids, rev):
    """Run one op on the real backend; returns the canonical output string."""
    st = be.store
    kind = op[0]
    try:
        if kind == 'w':
            env = make_env(op[1], op[2])
            rid = st.write(env, float(op[3]))
            ids[op[1]] = rid
            rev[canon_id(rid)] = op[1]
            return 'id:%d' % op[1]
        rid = ids.get(op[1]) if kind != 'l' else None
        if kind == 't':
            st.set_timestamp(rid, float(op[2]))
            return 'unit'
        if kind == 'i':
            return 'att:%d' % st.increment_attempts(rid)
        if kind == 'd':
            if op[3] == 'legacy' and be.name == 'redis' and rid is not None:
                # what the releases before the per-round format stored after a first partial delivery: the pickled SET the queue
                # handed over (the disk and cloud backends of those releases could not store one: list + set / JSON)
                import pickle
                st.redis.hset(st._get_key(rid), 'delivered_indexes', pickle.dumps(set(op[2]), pickle.HIGHEST_PROTOCOL))
                return 'unit'
            arg = list(op[2]) if op[3] == 'list' else set(op[2])
            st.set_recipients_delivered(rid, arg)
            return 'unit'
        if kind == 'g':
            env, att = st.get(rid)
            k = int(env.sender[1:].split('@')[0])
            body = env.flatten()[1]
            ck = k if body == b'body %d \xff\r\n' % k else -1
            rc = '.'.join(r.split('.')[1].split('@')[0] for r in env.recipients) or '-'
            return 'env:%d:%d:%s:%d' % (k, ck, rc, att)
        if kind == 'r':
            st.remove(rid)
            return 'unit'
        if kind == 'l':
            items = []
            for ts, lid in st.load():
                # the id must be usable as (and equal to) the id write() returned
                items.append((rev.get(lid, 'unknown:%r' % (lid,)), ts))
            items.sort(key=lambda x: str(x[0]))
            return 'list:' + (','.join('%d=%s' % (int(ts), i) for i, ts in items) or '-')
    except KeyError:
        return 'missing'
    except OSError:
        return 'missing'
    except Exception as e:
        return 'raise:%s' % type(e).__name__
    return '?'


def model_line(ops, kind):
    parts = []
    for op in ops:
        if op[0] == 'w':
            parts.append('w:%d:%d:%s:%d' % (op[1], op[1], '.'.join(str(x) for x in range(op[2])), op[3]))
        elif op[0] == 't':
            parts.append('t:%d:%d' % (op[1], op[2]))
        elif op[0] == 'i':
            parts.append('i:%d' % op[1])
        elif op[0] == 'd':
            parts.append('d:%d:%s' % (op[1], '.'.join(map(str, op[2])) or '-'))
        elif op[0] == 'g':
            parts.append('g:%d' % op[1])
        elif op[0] == 'r':
            parts.append('r:%d' % op[1])
        else:
            parts.append('l')
    return 'store %s %s' % (kind, ';'.join(parts) or '-')


class FakeMessageQueue(object):
    """The message queue a CloudStorage may be given (as the SQS / Cloud Queues adapters are used)."""

    def __init__(self):
        self.items = []
        self.n = 0

    def queue_message(self, storage_id, timestamp):
        self.n += 1
        self.items.append((timestamp, storage_id, 'mq%d' % self.n))

    def poll(self):
        return list(self.items)

    def delete(self, message_id):
        self.items = [x for x in self.items if x[2] != message_id]

    def sleep(self):
        import gevent
        gevent.sleep(0.001)


def run_wait(case, model):
    """The storage's wait mechanism (QueueStorage.wait: "messages written by another process"): every message written through one
    storage object is announced, once, with its id and timestamp, by wait() of another storage object over the same backend."""
    import gevent
    hits = []
    be = Backend(case['backend'])
    try:
        if case['backend'] == 'redis':
            from slimta.redisstorage import RedisStorage
            writer = be.store
            reader = RedisStorage(port=writer.redis.connection_pool.connection_kwargs['port'], prefix=writer.prefix)
        else:
            from slimta.cloudstorage import CloudStorage
            mq = FakeMessageQueue()
            writer = CloudStorage(be.store.obj_store, mq)
            reader = CloudStorage(be.store.obj_store, mq)
        announced = []

        def pump():
            while True:
                for ts, sid in reader.wait():
                    announced.append((float(ts), canon_id(sid)))
        g = None
        if case['reader_first']:
            g = gevent.spawn(pump)
            gevent.sleep(0.002)
        written = []
        for k, nr, ts in case['writes']:
            sid = writer.write(make_env(k, nr), float(ts))
            written.append((float(ts), canon_id(sid)))
        if g is None:
            g = gevent.spawn(pump)
        for _ in range(200):
            gevent.sleep(0.003)
            if len(announced) >= len(written):
                break
        gevent.sleep(0.01)
        g.kill(block=False)
        if sorted(announced) != sorted(written):
            hits.append(hit('c15.%s.wait-announcements' % case['backend'], 'wait() did not announce exactly the messages written through another storage object '
                            '(each once, with its id and timestamp)', observed=sorted(announced)[:6], expected=sorted(written)[:6]))
    finally:
        be.close()
    key = ('wait', case['backend'], repr(case['writes']), case['reader_first'])
    return CaseResult(None, hits, key, [case['backend'], 'wait-announcements'])


def run_case(case, model):
    if case.get('kind') == 'wait':
        return run_wait(case, model)
    import gevent
    be = Backend(case['backend'])
    ops = case['ops']
    if case.get('orphans') and be.tmp:
        # envelope files without a meta file, as a crash between the two writes of write() leaves them: not messages,
        # and no reason for load() / get() of the live messages to behave differently
        import pickle
        for i in range(case['orphans']):
            with open(os.path.join(be.tmp, 'env', '%s%030d.env' % ('0f'[i % 2], i)), 'wb') as f:
                f.write(pickle.dumps(make_env(900 + i, 1), pickle.HIGHEST_PROTOCOL))
    ids, rev = {}, {}
    outs = [None] * len(ops)
    try:
        if not case['overlap']:
            for n, op in enumerate(ops):
                outs[n] = do_op(be, op, ids, rev)
        else:
            # phases of ops on pairwise different ids run concurrently
            n = 0
            while n < len(ops):
                phase = [n]
                seen = {ops[n][1]} if ops[n][0] not in ('l',) else None
                m = n + 1
                while seen is not None and m < len(ops) and ops[m][0] not in ('l',) \
                        and ops[m][1] not in seen and len(phase) < 4:      # writes of different messages overlap too
                    seen.add(ops[m][1])
                    phase.append(m)
                    m += 1
                if len(phase) == 1:
                    outs[n] = do_op(be, ops[n], ids, rev)
                else:
                    # a start-up scan (load) runs next to the overlapped operations: it may see or miss a message being written,
                    # its listing is not compared, but it must not disturb the others
                    def scan():
                        try:
                            list(be.store.load())
                        except Exception:
                            pass
                    gs = [gevent.spawn(do_op, be, ops[k], ids, rev) for k in phase]
                    # spawned after them: the scans start when the operations yield for the first time, in the middle of their work
                    sgs = [gevent.spawn(scan) for _ in range(3)] if case['backend'] not in ('dict', 'shelve') else []
                    gevent.joinall(gs)
                    gevent.joinall(sgs)
                    for k, g in zip(phase, gs):
                        outs[k] = g.value if g.successful() else 'raise:%s' % type(g.exception).__name__
                n = phase[-1] + 1
    finally:
        be.close()
    kind = {'dict': 'inplace', 'shelve': 'inplace', 'redis': 'redis'}.get(case['backend'], 'accum')
    mouts = model.ask(model_line(ops, kind)).split(';')
    mref = model.ask(model_line(ops, 'inplace')).split(';')
    # ops that update a message which is no longer there: the contract does not say how they answer
    live = set()
    dontcare = set()
    for n, op in enumerate(ops):
        if op[0] == 'w':
            live.add(op[1])
        elif op[0] == 'r':
            if op[1] not in live:
                dontcare.add(n)
            live.discard(op[1])
        elif op[0] in ('t', 'i', 'd') and op[1] not in live:
            dontcare.add(n)
    gone = set()

    def zcanon(ans, gone):
        if not ans.startswith('list:') or ans == 'list:-':
            return ans
        items = []
        for it in ans[5:].split(','):
            ts, i = it.split('=')
            items.append(('Z' if i in gone else ts) + '=' + i)
        return 'list:' + ','.join(sorted(items, key=lambda x: x.split('=')[1]))
    for n, op in enumerate(ops):
        if op[0] == 'r':
            gone.add(str(op[1]))
        if op[0] == 'l':
            outs[n], mouts[n], mref[n] = zcanon(outs[n], gone), zcanon(mouts[n], gone), zcanon(mref[n], gone)
    mismatch = None
    hits = []
    for n, op in enumerate(ops):
        if n in dontcare:
            continue
        if outs[n] != mouts[n] and mismatch is None:
            mismatch = {'op': 'store %s' % kind, 'index': n, 'oper': op, 'impl': outs[n], 'model': mouts[n]}
        if outs[n] != mref[n]:
            sig = 'c15.%s.%s' % (case['backend'], {'w': 'write', 't': 'set_timestamp', 'i': 'increment_attempts',
                                                   'd': 'set_recipients_delivered', 'g': 'get', 'r': 'remove', 'l': 'load'}[op[0]])
            if outs[n].startswith('raise:'):
                sig += '.' + outs[n]
            if op[0] == 'l' and outs[n].startswith('list:') and mref[n].startswith('list:'):
                got = set(outs[n][5:].split(',')) - {'-'}
                want = set(mref[n][5:].split(',')) - {'-'}
                extra = {x.split('=')[1] for x in got - want}
                touched = {str(ops[k][1]) for k in dontcare if k < n and ops[k][0] in ('t', 'i', 'd')}
                if got >= want and extra and extra <= touched:
                    sig += '.lists-removed-id-after-update-on-it'
            hits.append(hit(sig, '%s answers differently from the reference store' % case['backend'],
                            observed={'index': n, 'op': op, 'answer': outs[n]}, expected=mref[n]))
            break
    tags = [case['backend'], 'overlap' if case['overlap'] else 'sequential', 'len<=10' if len(ops) <= 10 else 'len<=25' if len(ops) <= 25 else 'len>25']
    if dontcare:
        tags.append('ops-on-removed-ids')
    key = (case['backend'], repr(ops), case['overlap'])
    return CaseResult(mismatch, hits, key, tags)
