"""C03 — settled recipients are never attempted again; one attempt in flight per message.

Part 1 (this module, phase main): per-recipient outcome histories over >= 2 rounds on all four storage backends with the
real Queue, compared with the Lean attempt model (Model/Attempt.lean), whose multi-round index bookkeeping is tied to
the backends by C15's refinement theorem. Part 2: scheduler interleavings — the scenarios of the C12 harness (started real Queue,
virtual clock, held relay outcomes, held store.get / store.write / store.set_timestamp, storage announcements, flushes),
replayed through Model/Sched.lean, with the monitor 'a second attempt is started while one is in flight'.
"""
import itertools

from harness.core import rng_for
from harness.props import _queuehist as qh

RULE = ('exhaustive per-recipient outcome tables: 1..3 recipients x 3 outcomes (delivered / permanent / transient) x 2..3 '
        'rounds, as mapping and as sequence results, on dict, disk, redis and cloud backends, backoff 0 (retry due at once); '
        'plus seeded histories with 4 recipients and bounded store/relay pools; plus scheduler scenarios (see C12) monitored for a second '
        'attempt of a message in flight. distinct = distinct (backend, history, pools) / scenario descriptor; non-trivial = at least two attempts.')
BUDGET_S = {'quick': 170, 'thorough': 1500}


def tables(nr, rounds):
    """All histories where each outstanding recipient gets o / p1 / t1 per round."""
    def rec(outstanding, k):
        if k == 0 or not outstanding:
            yield []
            return
        for vals in itertools.product(['o', 'p1', 't1'], repeat=len(outstanding)):
            nxt = [rc for rc, v in zip(outstanding, vals) if v[0] == 't']
            for rest in rec(nxt, k - 1):
                yield [dict(zip(outstanding, vals))] + rest
    return rec(list(range(nr)), rounds)


def cases(tier, seed, phase):
    idx = 0
    maxr = 3
    for nr in (1, 2, 3):
        for hist in tables(nr, 2 if (tier == 'quick' and nr == 3) else maxr):
            if len(hist) < 2:
                continue
            idx += 1
            for form in ('M', 'Q'):
                outs = []
                for rd in hist:
                    keys = list(rd.keys())
                    if form == 'M':
                        if idx % 2:
                            keys = keys[::-1]
                        outs.append('M' + ','.join('%d=%s' % (k, rd[k]) for k in keys))
                    else:
                        outs.append('Q' + ','.join(rd[k] for k in sorted(keys)))
                for be in qh.BACKENDS:
                    if tier == 'quick' and be in ('disk', 'redis') and (idx + (form == 'M')) % 3:
                        continue
                    yield {'backend': be, 'rcpts': list(range(nr)), 'outcomes': outs, 'backoff': [0, 0, 0, None],
                           'sender': True, 'factory': False}
                    if nr >= 2 and idx % 4 == 0 and be in ('dict', 'disk'):
                        # the same history with one storage operation failing once
                        op = ['set_recipients_delivered', 'set_timestamp', 'increment_attempts', 'remove'][(idx // 4) % 4]
                        yield {'backend': be, 'rcpts': list(range(nr)), 'outcomes': outs, 'backoff': [0, 0, 0, None],
                               'sender': True, 'factory': False, 'store_fail': [op, (idx // 16) % 2]}
    n = 600 if tier == 'quick' else 12000
    for j in range(n):
        def mk(j=j):
            rng = rng_for(seed, 'c03', j)
            nr = rng.choice([2, 3, 4, 4])
            pools = rng.choice([[None, None], [1, 1], [2, 1], [1, 2], [2, 2], [None, 1]])
            return {'backend': rng.choice(qh.BACKENDS), 'rcpts': list(range(nr)),
                    'outcomes': qh.gen_history(rng, nr, rng.randint(2, 5), 'MMMQQT', nreplies=2),
                    'backoff': [0, 0, 0, 0, None], 'sender': True, 'factory': False, 'pools': pools}
        yield mk


def sched_cases(tier, seed):
    from harness.props import c12
    for j in range(1500 if tier == 'quick' else 30000):
        def mk(j=j):
            rng = rng_for(seed, 'c03s', j)
            return {'sched': True, 'script': None, 'seed': rng.randrange(1 << 30), 'backoff': rng.choice(c12.BACKOFFS), 'preload': rng.choice([0, 1, 2]),
                    'pools': rng.choice([None, None, [3, 3]]), 'nmsg': rng.choice([1, 2, 3]), 'steps': rng.choice([10, 16, 24]),
                    'holds': True, 'idorder': rng.choice(['asc', 'desc']), 'stale': rng.random() < 0.5}
        yield mk


_base_cases = cases


def cases(tier, seed, phase):          # noqa: F811  (the scheduler scenarios are appended to the histories)
    for c in _base_cases(tier, seed, phase):
        yield c
    for c in sched_cases(tier, seed):
        yield c


def run_case(case, model):
    if case.get('sched'):
        from harness.core import CaseResult
        from harness.props import c12
        r = c12.run_case(case, model)
        # C03's own question about these runs: is a second attempt of a message ever started while one is in flight?
        hits = [h for h in r.hits if h['signature'].startswith('c03.')]
        return CaseResult(r.mismatch, hits, ('sched',) + tuple(r.key) if r.key else None, ['sched'] + [t for t in r.tags if t.startswith('label:')])
    return qh.run_case(case, model, {'C03'})
