"""C12 — a queued message is attempted when due, never early, and never forgotten; flush.

Implementation: the real slimta.queue.Queue (scheduler greenlet started) over DictStorage, with a virtual clock
(`slimta.queue.time`, timed waits of the `wake` Event), a relay whose attempts are held until the harness decides their outcome,
a storage `wait()` fed by the harness, optional holds on `store.write` / `store.get`. Every atomic section of the queue is
logged as a label of Model/Sched.lean by wrapping instance attributes (no change to /repo); the Lean driver replays the
observed trace: every label must be enabled and now / timetable / id sets / storage timestamps / wake flag / scheduler timer
must agree at every observation point. Monitors check the property on the implementation alone.
"""
import os
import itertools

from harness.core import CaseResult, hit, rng_for

RULE = ('adaptive schedules (seeded; every choice from one PRNG) of {enqueue, advance the clock to the next due time / by a small step, decide '
        'the outcome of an in-flight attempt (delivered, transient, per-recipient mixed), flush(), announce a stored message through wait(), '
        'hold / release a store.get, hold / release a store.write} over 1..4 messages, backoff tables over {0, equal delays, growing delays, '
        'None}, 0..2 messages already in storage at start (load), unbounded and bounded store/relay pools; plus all action orders for small '
        'scenarios. distinct = distinct (parameters, actions taken); non-trivial = at least one retry or flush.')
BUDGET_S = {'quick': 170, 'thorough': 1500}
BASE = 1000000.0

BACKOFFS = [[5, 5, None], [0, 3, None], [2, 2, 2, None], [7, None], [0, 0, None], [4, 9, 20, None], [None]]


def cases(tier, seed, phase):
    n = 0
    # small exhaustive-ish: fixed scripts
    scripts = [
        ['enq', 'temp', 'tick', 'ok'],
        ['enq', 'temp', 'flush', 'ok'],
        ['enq', 'temp', 'flush', 'temp', 'tick', 'ok'],
        ['enq', 'enq', 'temp', 'temp', 'tick', 'ok', 'ok'],
        ['enq', 'temp', 'announce', 'tick', 'ok'],
        ['enq', 'temp', 'tick', 'temp', 'tick', 'temp', 'tick'],
        ['enq', 'mixed', 'tick', 'ok'],
        ['enq', 'temp', 'smalltick', 'flush', 'temp', 'flush', 'ok'],
    ]
    for sc in scripts:
        for bo in BACKOFFS[:5]:
            for pre in (0, 1):
                yield {'script': sc, 'backoff': bo, 'preload': pre, 'pools': None, 'nmsg': 2, 'seed': 0, 'idorder': 'desc' if (pre + len(sc)) % 2 else 'asc'}
    # a retry lands in front of the timetable while the scheduler is held up spawning on a full store pool
    yield {'script': ['enq', ['holdget', 39], 'tick', 'mixed', ['relget'], 'ok', 'ok', 'ok'], 'backoff': [0, 3, None], 'preload': 2, 'pools': [1, 4],
           'nmsg': 1, 'seed': 0, 'idorder': 'desc'}
    # a (stale) announcement arrives while _retry_later is inside store.set_timestamp
    for mode in ('before', 'after'):
        for bo in ([5, 5, None], [0, 3, None]):
            yield {'script': ['enq', ['holdts', 0, mode], 'temp', 'announce', ['relts'], 'tick', 'ok'], 'backoff': bo, 'preload': 0, 'pools': None,
                   'nmsg': 1, 'seed': 0, 'idorder': 'asc', 'stale': True}
    for j in range(9000 if tier == 'quick' else 150000):
        def mk(j=j):
            rng = rng_for(seed, 'c12', j)
            return {'script': None, 'seed': rng.randrange(1 << 30), 'backoff': rng.choice(BACKOFFS), 'preload': rng.choice([0, 0, 1, 2]),
                    'pools': rng.choice([None, None, None, [3, 3], [2, 4]]), 'nmsg': rng.choice([1, 2, 2, 3, 4]),
                    'steps': rng.choice([8, 12, 16, 24]), 'holds': rng.random() < 0.3, 'idorder': rng.choice(['asc', 'desc'])}
        yield mk


def rnums(recipients):
    import re
    out = []
    for a in recipients:
        m = re.match(r'r(\d+)x(\d+)@', a)
        out.append(int(m.group(1)) * 10 + int(m.group(2)) if m else 999)
    return out


def dots(nums):
    return '.'.join(str(n) for n in nums) or '-'


def _group(items):
    out = {}
    for it in items:
        out.setdefault(it[0], []).append(tuple(it[1:]))
    return out


def ledger_monitors(R, store, pools):
    """C01 / C03 / C13 stated over what the relay, the bounce factory and the storage saw in a scheduler run (implementation
    observables only). Calm runs only: outside (known finding of C12) enqueue() re-delivers by design of the defect."""
    hits = []
    if R.first_racing is not None:
        return hits
    settled, verdict, permfailed = {}, {}, {}
    for ev in R.events:
        if ev[0] == 'saw':
            again = sorted(set(ev[2]) & settled.get(ev[1], set()))
            if again:
                hits.append(hit('c03.settled-recipient-reattempted.sched', 'a delivery attempt includes a recipient the relay had already reported delivered or failed for good',
                                observed={'message': ev[1], 'recipients': again, 'attempt': ev[2]}))
                break
        else:
            for num, v in ev[2].items():
                verdict[num] = v
                if v[0] in 'op':
                    settled.setdefault(ev[1], set()).add(num)
                if v[0] == 'p':
                    permfailed[num] = int(v[1:])
    bounced = {}
    for k, reply, nums, too_many in R.bounce_calls:
        if k % 5 == 4:
            hits.append(hit('c13.bounce-for-null-sender.sched', 'a bounce was asked for a message with an empty sender', observed={'message': k, 'reply': reply, 'recipients': nums}))
            break
        for num in nums:
            ok = (permfailed.get(num) == reply and not too_many) or (too_many and k in R.gave_up and verdict.get(num, '') == 't%d' % reply)
            if not ok:
                hits.append(hit('c13.bounce-names-wrong-recipient.sched', 'a bounce names a recipient that did not fail with the reply it quotes',
                                observed={'message': k, 'reply': reply, 'too_many': too_many, 'recipient': num, 'its verdict': verdict.get(num)}))
                return hits
            if num in bounced:
                hits.append(hit('c13.recipient-bounced-twice.sched', 'a recipient is named in two bounces', observed={'message': k, 'recipient': num}))
                return hits
            bounced[num] = reply
    if pools is None and not R.inflight:
        # end of the run, unbounded pools, nothing in flight or held: everybody accepted is delivered, failed for good (and bounced when
        # the sender is not empty), or still in storage
        for k, id in sorted(R.idk.items()):
            stored = rnums(store.env_db[id].recipients) if id in store.meta_db and id in store.env_db else None
            for num in R.recipients_of.get(k, []):
                v = verdict.get(num, '')
                if v == 'o':
                    continue
                failed = v.startswith('p') or (k in R.gave_up and stored is None)
                if failed:
                    if k % 5 != 4 and num not in bounced:
                        hits.append(hit('c01.failed-recipient-not-bounced.sched', 'a recipient failed for good and no bounce names it (non-empty sender)',
                                        observed={'message': k, 'recipient': num, 'verdict': v}))
                        return hits
                elif stored is None or num not in stored:
                    hits.append(hit('c01.recipient-lost.sched', 'an accepted recipient is neither delivered, nor failed for good, nor in storage any more',
                                    observed={'message': k, 'recipient': num, 'last verdict': v, 'stored': stored}))
                    return hits
    return hits


def compare_composed(R, model, qpre, qchunks):
    """The same run against the composed queue machine (Model/QueueM.lean): every label enabled, the scheduler state AND what the
    storage holds for every message (recipients, attempt counter) equal at every observation; at the end the recipients and attempt
    number of every hand-off per message, the bounces asked for per message, and who was reported delivered."""
    ks = sorted(set(R.idk) | set(k for k, _, _ in R.handed))
    text = '/'.join(';'.join(c) or '-' for c in qchunks)
    m = model.ask('qm run 1 %s %s %s' % (','.join(str(k) for k in ks) or '-', ';'.join(qpre) or '-', text))
    parts = m.split(' || ')
    mstates = parts[0].split(' / ')
    for i, (ls, snap, qls, qsnap) in enumerate(R.chunks):
        if R.first_racing is not None and i >= R.first_racing:
            # not a calm run from here on (known finding of C12): enqueue() will hand over an envelope object of its own for a
            # message the timetable has dealt with meanwhile; the composed machine's theorems do not cover it and what happens
            # depends on the backend (the message may be gone from storage by then). Model/Sched.lean is still compared above.
            return None
        ms = mstates[i] if i < len(mstates) else 'missing'
        want = snap + ' m=' + qsnap
        if ms != want:
            return {'op': 'qm run', 'chunk': i, 'action': R.actions[i] if i < len(R.actions) else None, 'labels': ';'.join(qls)[:300],
                    'impl': want, 'model': ms, 'trace': text[:1500]}
    if len(parts) < 2:
        return {'op': 'qm run', 'model': m[:300], 'trace': text[:1500]}
    fields = dict(f.split('=', 1) for f in parts[1].split(' '))

    def parse(s, n):
        return [] if s == '-' else [tuple(x.split(':')) for x in s.split(',')]
    # Outside the calm environment (a message announced while enqueue() still holds it: the known finding of C12) enqueue() hands
    # over the envelope object it was given; what that object holds by then depends on the backend (DictStorage stores the very
    # object and strikes delivered recipients from it). The theorems do not cover those runs; such messages are left out here.
    calm_only = lambda g: dict((k, v) for k, v in g.items() if k not in R.racing)
    mh = calm_only(_group([(int(a), b, int(c)) for a, b, c in parse(fields['handed'], 3)]))
    ih = calm_only(_group([(k, dots(r), a) for k, r, a in R.handed]))
    if mh != ih:
        return {'op': 'qm run', 'what': 'hand-offs per message (recipients, attempts argument)', 'impl': str(ih)[:400], 'model': str(mh)[:400], 'trace': text[:1500]}
    rs = _group([(k, dots(r), a) for k, r, a in R.relay_saw])
    ih_all = _group([(k, dots(r), a) for k, r, a in R.handed])
    for k, l in rs.items():
        if ih_all.get(k, [])[:len(l)] != l:
            return {'op': 'qm run', 'what': 'what the relay was given differs from what was handed off', 'message': k, 'impl': str(l)[:300], 'model': str(ih_all.get(k))[:300],
                    'trace': text[:1500]}
    # a message whose _retry_later has not come back when the run ends (it gave up, asked for the bounce, and its removal waits for a
    # slot of a saturated store pool): the bounce was asked for, the label of the model's retry step is logged when the call returns
    lagging = set(R.incr_pending) | set(R.permfail_pending)
    settled_only = lambda g: dict((k, v) for k, v in g.items() if k not in lagging)
    mb = settled_only(calm_only(_group([(int(a), int(b), c, d == '1') for a, b, c, d in parse(fields['bounces'], 4)])))
    ib = settled_only(calm_only(_group([(k, r, dots(n), t) for k, r, n, t in R.bounce_calls])))
    if mb != ib:
        return {'op': 'qm run', 'what': 'bounces asked for per message (reply, recipients, too-many-retries)', 'impl': str(ib)[:400], 'model': str(mb)[:400],
                'trace': text[:1500]}
    md = dict((int(a), b) for a, b, c in parse(fields['ledger'], 3))
    for k in ks:
        if k not in R.racing and md.get(k, '-') != dots(R.reported.get(k, [])):
            return {'op': 'qm run', 'what': 'recipients reported delivered', 'message': k, 'impl': dots(R.reported.get(k, [])), 'model': md.get(k), 'trace': text[:1500]}
    return None


class VClock(object):
    def __init__(self):
        self.now = BASE
        self.timers = []

    def time(self):
        return self.now

    def advance(self, dt):
        self.now += dt
        for item in list(self.timers):
            if item[0] <= self.now:
                self.timers.remove(item)
                item[1].set()


def make_vevent(clock):
    import gevent
    from gevent.event import Event

    class VEvent(Event):
        deadline = None
        waiting = False

        def wait(self, timeout=None):
            self.waiting = True
            try:
                if timeout is None:
                    self.deadline = None
                    return Event.wait(self)
                if self.is_set():
                    return True
                t = Event()
                item = (clock.now + timeout, t)
                self.deadline = item[0]
                clock.timers.append(item)
                try:
                    gevent.wait([self, t], count=1)
                finally:
                    if item in clock.timers:
                        clock.timers.remove(item)
                return self.is_set()
            finally:
                self.waiting = False
                self.deadline = None
    return VEvent()


class Run(object):
    def __init__(self, case):
        self.case = case
        self.labels = []
        self.qlabels = []        # the same trace with the labels of the composed machine (Model/QueueM.lean): recipients, full outcomes
        self.chunks = []
        self.handed = []         # (k, [recipient numbers], attempts) of every hand-off (spawn of Queue._attempt)
        self.relay_saw = []      # the same as the relay's attempt() saw it when the attempt started (later, when the relay pool was full)
        self.bounce_calls = []   # (k, reply id, [recipient numbers], too_many) of every call of the bounce factory
        self.reported = {}       # k -> recipient numbers the relay reported delivered, in order
        self.first_racing = None
        self.permfail_pending = set()   # k: _perm_fail(id, ...) entered and not returned (its removal spawn waits for a store-pool slot)
        self.events = []         # ('saw', k, [recipient numbers]) when the relay starts an attempt, ('out', k, {number: verdict}) when it answers
        self.gave_up = set()     # k: the backoff function answered None
        self.recipients_of = {}  # k -> recipient numbers the message was accepted with
        self.backoff_asked = {}     # k -> the attempts argument of every call of the backoff function for message k, in order
        self.pre_att = {}           # k -> the attempt counter a preloaded message started with
        self.incr_pending = set()   # k: increment_attempts done, the retry label not logged yet
        self.actions = []
        self.kid = {}            # store id -> k
        self.idk = {}            # k -> store id
        self.inflight = {}       # k -> (gate, box)
        self.attempt_log = []    # (k, vtime, attempts, stored_ts, cause)
        self.cause_of = {}
        self.ctx = None
        self.in_retry_g = set()
        self.backoff_of = {}
        self.when_of = {}
        self.stamped = set()
        self.flushes = []
        self.nlabels = 0
        self.get_holds = {}
        self.write_holds = {}
        self.ts_holds = {}          # k -> (Event, 'before' | 'after'): store.set_timestamp of k yields
        self.ts_waiting = set()     # k whose set_timestamp is currently held
        self.orig_ts = {}
        self.last_flush_label = -1
        self.last_ts_set = {}     # k -> label index when its timestamp was last written
        self.flushed_since = {}   # k -> True if a flush took it out of the timetable since the last timestamp write
        self.activated = set()
        self.written_pending = set()   # written by enqueue, not yet activated
        self.deq_pending = {}          # k -> number of _dequeue tasks spawned and not yet past store.get
        self.handoff_cause = {}
        self.racing = set()
        self.double_attempts = []

    def log(self, l, q=None):
        self.labels.append(l)
        self.qlabels.append(q if q is not None else l)
        self.nlabels += 1

    def rel(self, t):
        return int(round(t - BASE))


def run_case(case, model):
    import gevent
    from gevent.event import Event
    from gevent.queue import Queue as GQueue
    import slimta.queue as qmod
    from slimta.queue import Queue
    from slimta.queue.dict import DictStorage
    from slimta.relay import Relay, TransientRelayError, PermanentRelayError
    from slimta.envelope import Envelope
    from slimta.smtp.reply import Reply
    import random
    try:
        gevent.get_hub().exception_stream = None
    except Exception:
        pass
    R = Run(case)
    clock = VClock()
    saved_time = qmod.time
    qmod.time = clock
    import slimta.queue.dict as dmod
    saved_uuid = dmod.uuid

    class FakeUuid(object):
        # storage ids whose string order is the order of the message numbers (ties in the timetable are ordered by id)
        next_k = 0

        class _U(object):
            def __init__(self, k):
                self.hex = '%032d' % k

        def uuid4(self):
            return self._U(self.next_k)
    fake_uuid = FakeUuid()
    dmod.uuid = fake_uuid
    desc = case.get('idorder') == 'desc'
    rng = random.Random(case['seed'])
    hits = []
    q = None
    try:
        ann = GQueue()

        class Store(DictStorage):
            def wait(self):
                entry = ann.get()
                if entry is None:
                    raise NotImplementedError()
                return [entry]

        store = Store()
        orig_write, orig_get = store.write, store.get

        def write(env, ts):
            fake_uuid.next_k = env.k
            id = orig_write(env, ts)
            k = env.k
            R.kid[id] = k
            R.idk[k] = id
            R.log('w%d:%d' % (k, R.rel(ts)), 'w%d:%d:%s:%d' % (k, R.rel(ts), dots(rnums(env.recipients)), 1 if env.sender else 0))
            R.orig_ts[k] = ts
            R.written_pending.add(k)
            R.last_ts_set[k] = R.nlabels
            h = R.write_holds.get(k)
            if h is not None:
                h.wait()
            return id

        def get(id):
            k = R.kid.get(id, 99)
            h = R.get_holds.get(k)
            if h is not None:
                h.wait()
            cause = R.cause_of.get(gevent.getcurrent(), 's')
            R.deq_pending[k] = R.deq_pending.get(k, 1) - 1
            try:
                ret = orig_get(id)
            except KeyError:
                R.log('d%d:%s' % (k, cause))
                raise
            R.log('d%d:%s' % (k, cause))
            R.cur_cause = cause
            return ret
        orig_set_ts = store.set_timestamp

        def set_timestamp(id, ts):
            k = R.kid.get(id, 99)
            h = R.ts_holds.get(k)
            if h is not None and h[1] == 'before':
                R.ts_waiting.add(k)
                h[0].wait()
                R.ts_waiting.discard(k)
            r = orig_set_ts(id, ts)
            # the first half of _retry_later is over: the due time it chose is in storage (the message is still active)
            R.log('r%d:%d' % (k, R.rel(ts)))
            R.incr_pending.discard(k)
            R.stamped.add(gevent.getcurrent())
            R.last_ts_set[k] = R.nlabels
            R.flushed_since[k] = False
            if h is not None and h[1] == 'after':
                R.ts_waiting.add(k)
                h[0].wait()
                R.ts_waiting.discard(k)
            return r
        orig_incr = store.increment_attempts

        def increment_attempts(id):
            r = orig_incr(id)
            R.incr_pending.add(R.kid.get(id, 99))
            return r
        store.increment_attempts = increment_attempts
        store.write, store.get, store.set_timestamp = write, get, set_timestamp

        class FakeRelay(Relay):
            def attempt(self, env, attempts):
                k = env.k
                R.relay_saw.append((k, rnums(env.recipients), attempts))
                R.events.append(('saw', k, rnums(env.recipients)))
                id = R.idk.get(k)
                ts = store.meta_db[id]['timestamp'] if id in store.meta_db else None
                excused = R.flushed_since.get(k, False)
                R.attempt_log.append((k, clock.now, attempts, ts, excused or R.handoff_cause.get(k) == 'f'))
                if k in R.inflight:
                    R.double_attempts.append((k, R.rel(clock.now)))
                gate, box = Event(), {}
                R.inflight[k] = (gate, box)
                gate.wait()
                del R.inflight[k]
                oc = box['outcome']
                nums = rnums(env.recipients)
                n = len(nums)
                if oc in ('ok', 'temp', 'perm', 'boom'):
                    R.events.append(('out', k, dict((num, {'ok': 'o', 'temp': 't1', 'perm': 'p2', 'boom': 't9'}[oc]) for num in nums)))
                    R.log('D%d:%d' % (k, 1 if oc in ('ok', 'perm') else 0), 'D%d:%s' % (k, {'ok': 'S', 'temp': 'T1', 'perm': 'P2', 'boom': 'X9'}[oc]))
                    if oc == 'ok':
                        R.reported.setdefault(k, []).extend(nums)
                        return None
                    if oc == 'temp':
                        raise TransientRelayError('try later', Reply('450', '4.0.0 later r1'))
                    if oc == 'perm':
                        raise PermanentRelayError('no', Reply('550', '5.0.0 no r2'))
                    raise RuntimeError('boom9')
                # per-recipient results: a vector of o (delivered) / p<r> (failed for good with reply r) / t<r> (try later)
                if oc == 'mixed':
                    vec = ['o' if i == 0 and n > 1 else 't1' for i in range(n)]      # first recipient delivered, the others try later
                    form = 'M'
                elif oc == 'mixedp':
                    vec = ['p2' if i == 0 else 't1' for i in range(n)]
                    form = 'M'
                else:
                    vec, form = box['vec'][:n], box['form']

                def value(v):
                    if v == 'o':
                        return None if k % 2 else Reply('250', '2.0.0 ok')
                    if v[0] == 'p':
                        return PermanentRelayError('no', Reply('550', '5.0.0 no r%s' % v[1:]))
                    return TransientRelayError('later', Reply('450', '4.0.0 later r%s' % v[1:]))
                pairs = list(zip(env.recipients, nums, vec))
                if form == 'Mrev':
                    pairs.reverse()          # the mapping's own order need not be the envelope's
                okflag = 0 if any(v[0] == 't' for v in vec) else 1
                R.events.append(('out', k, dict((num, v) for _, num, v in pairs)))
                R.reported.setdefault(k, []).extend(num for _, num, v in pairs if v == 'o')
                if form == 'Q':
                    R.log('D%d:%d' % (k, okflag), 'D%d:Q%s' % (k, ','.join(vec)))
                    return [value(v) for v in vec]
                R.log('D%d:%d' % (k, okflag), 'D%d:M%s' % (k, ','.join('%d=%s' % (num, v) for _, num, v in pairs)))
                return dict((rcpt, value(v)) for rcpt, _, v in pairs)
        relay = FakeRelay()
        table = case['backoff']

        def backoff(env, attempts):
            w = table[min(attempts - 1, len(table) - 1)] if attempts >= 1 else table[0]
            nums = rnums(env.recipients)
            if nums and nums[0] != 999:
                R.backoff_asked.setdefault(nums[0] // 10, []).append(attempts)
            R.backoff_of[gevent.getcurrent()] = w
            if w is None:
                R.gave_up.add(getattr(env, 'k', -1))
            return w
        pools = case.get('pools')
        def bounce_factory(env, reply):
            import re as _re
            nums = rnums(env.recipients)
            m = _re.search(r'(?:r|boom)(\d+)', reply.message)
            R.bounce_calls.append((nums[0] // 10 if nums else -1, int(m.group(1)) if m else -1, nums, reply.message.endswith('(Too many retries)')))
            return None
        q = Queue(store, relay, backoff=backoff, bounce_factory=bounce_factory,
                  store_pool=pools[0] if pools else None, relay_pool=pools[1] if pools else None)
        q.wake = make_vevent(clock)
        # ---- instrumentation (instance attributes only)
        orig_check, orig_retry, orig_remove_stored, orig_addq = q._check_ready, q._retry_later, q._remove_stored, q._add_queued
        orig_spawn, orig_dequeue, orig_flush, orig_attempt = q._pool_spawn, q._dequeue, q.flush, q._attempt

        ctx_of = {}          # greenlet -> 's' (inside _check_ready) / 'f' (inside flush)

        def check_ready(now):
            R.log('s')       # the loop's turn is two labels: s = _check_ready (its spawns may block on a full pool), z = _wait_ready
            ctx_of[gevent.getcurrent()] = 's'
            try:
                return orig_check(now)
            finally:
                ctx_of.pop(gevent.getcurrent(), None)

        orig_wait_ready = q._wait_ready

        def wait_ready(now):
            R.log('z')
            return orig_wait_ready(now)
        q._wait_ready = wait_ready

        class LockProxy(object):
            # the label of flush() is logged when flush has the lock, i.e. when it takes the entries out
            def __init__(self, real):
                self.real = real

            def acquire(self, *a, **kw):
                r = self.real.acquire(*a, **kw)
                if ctx_of.get(gevent.getcurrent()) == 'f':
                    R.log('f')
                    for _, id in q.queued:
                        R.flushed_since[R.kid.get(id, 99)] = True
                return r

            def release(self):
                return self.real.release()
        q.queued_lock = LockProxy(q.queued_lock)

        def pool_spawn(which, func, *args, **kw):
            if func == orig_dequeue:
                cause = ctx_of.get(gevent.getcurrent()) or 's'
                kk = R.kid.get(args[0], 99)
                R.deq_pending[kk] = R.deq_pending.get(kk, 0) + 1

                def deq(id):
                    R.cause_of[gevent.getcurrent()] = cause
                    try:
                        return orig_dequeue(id)
                    finally:
                        R.cause_of.pop(gevent.getcurrent(), None)
                return orig_spawn(which, deq, *args, **kw)
            if func == orig_attempt:
                k = R.kid.get(args[0], 99)
                R.handed.append((k, rnums(args[1].recipients), args[2]))
                cause = R.cause_of.get(gevent.getcurrent())
                if cause is None:
                    # enqueue's own hand-off (not a _dequeue task)
                    R.log('A%d' % k)
                    R.activated.add(k)
                    R.written_pending.discard(k)
                    cause = 'e'
                R.handoff_cause[k] = cause
            return orig_spawn(which, func, *args, **kw)

        def retry_later(id, envelope, replies, delivered=None):
            k = R.kid.get(id, 99)
            R.in_retry_g.add(gevent.getcurrent())
            R.backoff_of[gevent.getcurrent()] = 'unset'
            try:
                return orig_retry(id, envelope, replies, delivered)
            finally:
                R.in_retry_g.discard(gevent.getcurrent())
                R.backoff_of.pop(gevent.getcurrent(), None)
                if gevent.getcurrent() in R.stamped:
                    R.stamped.discard(gevent.getcurrent())
                    R.log('Q%d' % k)            # the second half: released and put into the timetable
                else:
                    R.log('r%d:-' % k)          # the backoff function gave up
                    R.incr_pending.discard(k)
                    R.last_ts_set[k] = R.nlabels
                    R.flushed_since[k] = False

        def remove_stored(id):
            R.log('R%d' % R.kid.get(id, 99))
            return orig_remove_stored(id)

        def add_queued(entry):
            if gevent.getcurrent() not in R.in_retry_g:
                ts, id = entry
                kk = R.kid.get(id, 99)
                R.log('n%d:%d' % (kk, R.rel(ts)))
                if kk in R.written_pending or R.deq_pending.get(kk, 0) > 0:
                    R.racing.add(kk)
                    if R.first_racing is None:
                        R.first_racing = len(R.chunks)       # the observation in which the environment stops being calm
            return orig_addq(entry)

        def flush():
            R.log('p')        # flush() begins with wake.set(); wake.clear(); the label f follows when it has the lock
            ctx_of[gevent.getcurrent()] = 'f'
            try:
                return orig_flush()
            finally:
                ctx_of.pop(gevent.getcurrent(), None)
        q._check_ready, q._retry_later, q._remove_stored, q._add_queued = check_ready, retry_later, remove_stored, add_queued
        orig_perm_fail = q._perm_fail

        def perm_fail(id, envelope, reply):
            # _perm_fail(id, ...) first spawns the removal (which waits when the store pool is full) and only then asks for the bounce:
            # while it is inside, the model (whose `done` step does both) is ahead by that bounce
            kk = R.kid.get(id) if id is not None else None
            if kk is not None:
                R.permfail_pending.add(kk)
            try:
                return orig_perm_fail(id, envelope, reply)
            finally:
                R.permfail_pending.discard(kk)
        q._perm_fail = perm_fail
        q._pool_spawn, q._dequeue, q.flush = pool_spawn, orig_dequeue, flush

        def make_env(k):
            # 1..3 recipients (numbered 10k+i); every fifth message has the null sender (never bounced)
            env = Envelope('' if k % 5 == 4 else 's%d@example.com' % k, ['r%dx%d@example.com' % (k, i) for i in range([2, 3, 1, 2][k % 4])])
            env.parse(b'Subject: m\r\n\r\nbody\r\n')
            env.k = k
            R.recipients_of[k] = rnums(env.recipients)
            return env

        def settle():
            last, quiet = None, 0
            for _ in range(200):
                gevent.sleep(0)
                cur = R.nlabels
                quiet = quiet + 1 if cur == last else 0
                last = cur
                if quiet >= 4:
                    break

        def snapshot():
            qd = ','.join('%d:%d' % (R.rel(ts), R.kid.get(id, 99)) for ts, id in q.queued) or '-'
            ids = ','.join(str(x) for x in sorted(R.kid.get(i, 99) for i in q.queued_ids)) or '-'
            act = ','.join(str(x) for x in sorted(R.kid.get(i, 99) for i in q.active_ids)) or '-'
            st = ','.join('%d:%d' % (k, R.rel(store.meta_db[id]['timestamp'])) for k, id in sorted(R.idk.items()) if id in store.meta_db) or '-'
            w = q.wake
            asleep = '-' if not w.waiting else ('inf' if w.deadline is None else str(R.rel(w.deadline)))
            return 'now=%d q=%s ids=%s act=%s st=%s wake=%d asleep=%s' % (R.rel(clock.now), qd, ids, act, st, 1 if w.is_set() else 0, asleep)

        def qsnapshot():
            # what the storage holds for every message: recipients still to be delivered to, attempt counter. _retry_later calls
            # increment_attempts first; the label of the model's retry step (which counts the attempt AND takes the backoff's answer) is
            # logged when the due time is written, or when the give-up branch has finished — both can be later (a held
            # set_timestamp, a removal waiting for a slot of a bounded store pool). In between the counter is shown as it was.
            held = R.incr_pending
            return ','.join('%d:%s:%d' % (k, dots(rnums(store.env_db[id].recipients)), store.meta_db[id]['attempts'] - (1 if k in held else 0))
                            for k, id in sorted(R.idk.items()) if id in store.meta_db) or '-'

        def observe(action):
            settle()
            R.actions.append(action)
            R.chunks.append((R.labels, snapshot(), R.qlabels, qsnapshot()))
            R.qlabels = []
            if os.environ.get('VERIF_C12_TRACE'):
                import sys
                sys.stderr.write('%-22s %-30s %s\n' % (action, ','.join(R.labels), snapshot()))
            R.labels = []
            monitors(action)

        next_k = [0]
        enq_greenlets = []

        def known_stored():
            return [(k, id) for k, id in R.idk.items() if id in store.meta_db]

        def monitors(action):
            # never forgotten / due dispatch, at quiescence (nothing held)
            if R.get_holds or R.write_holds or R.ts_holds:
                return
            if pools and (len(q.store_pool) > 0 or q.relay_pool.free_count() == 0):
                return      # with bounded pools a hand-off may legitimately wait for a slot
            queued_ids = {id: ts for ts, id in q.queued}
            for k, id in known_stored():
                if id in q.active_ids:
                    continue
                if id not in queued_ids:
                    hits.append(hit('c12.stored-message-neither-active-nor-scheduled', 'a stored message the queue knows is neither in flight nor in the timetable at quiescence',
                                    observed={'message': k, 'state': snapshot(), 'after': action}))
                    return
                ts = queued_ids[id]
                w = q.wake
                if ts <= clock.now:
                    hits.append(hit('c12.due-message-not-attempted', 'a timetable entry is due but the message was not handed to the relay',
                                    observed={'message': k, 'state': snapshot(), 'after': action}))
                    return
                if w.waiting and (w.deadline is None or w.deadline > ts) and not w.is_set():
                    hits.append(hit('c12.scheduler-sleeps-past-due-time', 'the scheduler sleeps without a timer at or before the first due time',
                                    observed={'message': k, 'state': snapshot(), 'after': action}))
                    return

        # ---- preload + start
        def take_k():
            n = next_k[0]
            next_k[0] += 1
            return (40 - n) if desc else n
        for _ in range(case.get('preload', 0)):
            k = take_k()
            env = make_env(k)
            fake_uuid.next_k = k
            id = orig_write(env, clock.now + 3)
            R.kid[id] = k
            R.idk[k] = id
            # a message the storage held before this queue started may have been attempted before (QM.startAt): its counter goes on
            pre_att = (k * 7 + case.get('seed', 0)) % 3
            R.pre_att[k] = pre_att
            for _ in range(pre_att):
                orig_incr(id)
            R.labels.append('PRE%d:%d' % (k, 3))
            R.qlabels.append('PRE%d:%d:%s:%d:%d' % (k, 3, dots(rnums(env.recipients)), 1 if env.sender else 0, pre_att))
        q.start()
        gevent.spawn(lambda: None)
        observe(['start'])

        def act_enq():
            if next_k[0] >= case['nmsg'] + case.get('preload', 0):
                return False
            k = take_k()
            env = make_env(k)

            def go():
                q.enqueue(env)
                if k in R.idk and k not in R.activated:
                    R.log('A%d' % k)          # a _dequeue task had activated it before enqueue came back
                    R.activated.add(k)
                    R.written_pending.discard(k)
            if case.get('holds') and rng.random() < 0.3:
                R.write_holds[k] = Event()
            enq_greenlets.append(gevent.spawn(go))
            observe(['enq', k])
            return True

        def act_outcome(oc):
            if not R.inflight:
                return False
            k = sorted(R.inflight)[rng.randrange(len(R.inflight))] if case['script'] is None else sorted(R.inflight)[0]
            gate, box = R.inflight[k]
            box['outcome'] = oc
            if oc == 'vec':
                box['vec'] = [rng.choice(['o', 'o', 'p2', 'p4', 't1', 't1', 't3']) for _ in range(3)]
                box['form'] = rng.choice(['M', 'Mrev', 'Q'])
            gate.set()
            observe([oc, k])
            return True

        def act_tick(small=False):
            dues = sorted(ts for ts, _ in q.queued)
            if small or not dues:
                dt = 1
            else:
                dt = max(0, int(round(dues[0] - clock.now)))
                if dt == 0:
                    dt = 1
            R.log('t%d' % dt)
            clock.advance(dt)
            observe(['tick', dt])
            return True

        def act_flush():
            g = gevent.spawn(q.flush)
            R.flushes.append(g)
            observe(['flush'])
            return True

        def act_announce():
            ks = known_stored()
            if not ks:
                return False
            k, id = ks[rng.randrange(len(ks))]
            stale = k in R.orig_ts and (case.get('stale') or rng.random() < 0.4)
            # a stale announcement (the timestamp of the original write, as a Redis queue entry carries it) of a message the queue knows
            ann.put((R.orig_ts[k] if stale else store.meta_db[id]['timestamp'], id))
            observe(['announce', k, 'stale' if stale else 'current'])
            return True

        def act_holdget():
            ks = [k for k, _ in known_stored() if k not in R.get_holds]
            if not ks:
                return False
            R.get_holds[ks[rng.randrange(len(ks))]] = Event()
            return True

        def act_holdts(k=None, mode=None):
            ks = [x for x in sorted(R.inflight) if x not in R.ts_holds]
            if k is None:
                if not ks:
                    return False
                k = ks[rng.randrange(len(ks))]
            R.ts_holds[k] = (Event(), mode or rng.choice(['before', 'after']))
            return True

        def act_release_hold():
            if R.ts_holds and (R.ts_waiting or not (R.write_holds or R.get_holds)):
                k = sorted(R.ts_holds)[0]
                R.ts_holds.pop(k)[0].set()
                observe(['relts', k])
                return True
            if R.write_holds:
                k = sorted(R.write_holds)[0]
                R.write_holds.pop(k).set()
                observe(['relwrite', k])
                return True
            if R.get_holds:
                k = sorted(R.get_holds)[0]
                R.get_holds.pop(k).set()
                observe(['relget', k])
                return True
            return False

        if case['script'] is not None:
            for a in case['script']:
                if a == 'enq':
                    act_enq()
                elif a in ('ok', 'temp', 'perm', 'mixed', 'mixedp', 'boom', 'vec'):
                    act_outcome(a)
                elif a == 'tick':
                    act_tick()
                elif a == 'smalltick':
                    act_tick(True)
                elif a == 'flush':
                    act_flush()
                elif a == 'announce':
                    act_announce()
                elif isinstance(a, list) and a[0] == 'holdget':
                    R.get_holds[a[1]] = Event()
                elif isinstance(a, list) and a[0] == 'relget':
                    act_release_hold()
                elif isinstance(a, list) and a[0] == 'holdts':
                    act_holdts(a[1], a[2])
                elif isinstance(a, list) and a[0] == 'relts':
                    act_release_hold()
        else:
            for _ in range(case['steps']):
                r = rng.random()
                if r < 0.18:
                    act_enq() or act_tick()
                elif r < 0.50:
                    act_outcome(rng.choice(['ok', 'temp', 'temp', 'temp', 'mixed', 'perm', 'vec', 'vec', 'mixedp', 'boom'])) or act_tick()
                elif r < 0.70:
                    act_tick(rng.random() < 0.3)
                elif r < 0.80:
                    act_flush()
                elif r < 0.88:
                    act_announce() or act_tick()
                elif case.get('holds') and r < 0.91:
                    act_holdget()
                elif case.get('holds') and r < 0.95:
                    act_holdts()
                else:
                    act_release_hold() or act_tick(True)
        while act_release_hold():
            pass
        observe(['end'])
        # ---- monitors over the whole run
        saturated = bool(pools) and (q.store_pool.free_count() == 0 or q.relay_pool.free_count() == 0)
        for g in R.flushes:
            # a flush that waits for a slot of a saturated bounded pool is what bounded pools mean; waiting on the scheduler loop is not
            if not g.ready() and not saturated:
                hits.append(hit('c12.flush-does-not-return', 'flush() is still blocked at quiescence (it waits on the scheduler loop)',
                                observed={'state': snapshot(), 'actions': R.actions[-6:]}))
                break
        for k, t, attempts, ts, excused in R.attempt_log:
            if not excused and ts is not None and t < ts:
                hits.append(hit('c12.attempt-before-due-time' + ('.after-racing-announce' if k in R.racing else ''), 'a retry was handed to the relay before the time the backoff policy chose and no flush asked for it',
                                observed={'message': k, 'at': R.rel(t), 'due': R.rel(ts), 'attempt': attempts}))
                break
        if R.double_attempts:
            hits.append(hit('c03.second-attempt-while-one-is-in-flight', 'a second delivery attempt of a message was started while one was still in flight',
                            observed={'message': R.double_attempts[0][0], 'at': R.double_attempts[0][1]}))
        hits.extend(ledger_monitors(R, store, pools))
        # the backoff function is asked about the n-th retry of a message with the number of attempts made so far (the counter the
        # storage holds, incremented once per _retry_later): base + 1, base + 2, ... (the hypothesis `obeys` of attempts_need_backoff /
        # attempts_bounded; seeded change C12-x asked about attempt 1 every time on the partial-delivery path)
        for k, asked in sorted(R.backoff_asked.items()):
            base = R.pre_att.get(k, 0)
            want = [base + n + 1 for n in range(len(asked))]
            if asked != want:
                hits.append(hit('c12.backoff-asked-about-the-wrong-attempt', 'the backoff function was not asked about attempt base+1, base+2, ... of a message '
                                '(the retry schedule is stretched, cut, or never ends)', observed={'message': k, 'asked': asked}, expected=want))
                break
        # ---- model replay
        pre = []
        chunks = []
        qpre, qchunks = [], []
        for ls, snap, qls, qsnap in R.chunks:
            chunks.append([l for l in ls if not l.startswith('PRE')])
            pre += [l for l in ls if l.startswith('PRE')]
            qchunks.append([l for l in qls if not l.startswith('PRE')])
            qpre += ['P' + l[3:] for l in qls if l.startswith('PRE')]
        # preloaded messages: written before the model starts (the model sees them through announce, as load() reports them)
        prelabels = []
        for p in pre:
            k, dt = p[3:].split(':')
            prelabels.append('P%s:%s' % (k, dt))
        text = '/'.join(','.join(c) or '-' for c in chunks)
        m = model.ask('sched run %s %s' % (','.join(prelabels) or '-', text))
        body = m.split(' || ')[0]
        mstates = body.split(' / ')
        mismatch = None
        for i, (ls, snap, _qls, _qsnap) in enumerate(R.chunks):
            ms = mstates[i] if i < len(mstates) else 'missing'
            if snap is None:
                if ms.startswith('disabled') or ms.startswith('bad-label') or ms == 'missing':
                    mismatch = {'op': 'sched run', 'chunk': i, 'labels': ','.join(ls)[:300], 'model': ms, 'trace': text[:1500]}
                    break
                continue            # a storage call inside _retry_later is held: the atomic section is split, states are compared after it
            if ms != snap:
                mismatch = {'op': 'sched run', 'chunk': i, 'action': R.actions[i] if i < len(R.actions) else None, 'labels': ','.join(ls)[:300],
                            'impl': snap, 'model': ms, 'trace': text[:1500]}
                break
        if mismatch is None:
            mismatch = compare_composed(R, model, qpre, qchunks)
        tags = ['pools=%s' % ('none' if not pools else 'bounded'), 'preload=%d' % case.get('preload', 0), 'scripted' if case['script'] is not None else 'random']
        alll = [l for ls, _, _, _ in R.chunks for l in ls]
        qall = [l for _, _, qls, _ in R.chunks for l in qls]
        for pfx, name in (('M', 'outcome:mapping'), ('Q', 'outcome:sequence'), ('X', 'outcome:exception'), ('P', 'outcome:permanent'), ('T', 'outcome:transient'), ('S', 'outcome:success')):
            if any(l.startswith('D') and l.split(':', 1)[1].startswith(pfx) for l in qall):
                tags.append(name)
        if R.bounce_calls:
            tags.append('bounce-asked')
        for pfx, name in (('r', 'retry'), ('f', 'flush'), ('n', 'announce'), ('R', 'remove'), ('d', 'dequeue'), ('Q', 'requeue')):
            if any(l.startswith(pfx) for l in alll):
                tags.append('label:' + name)
        if 0 in case['backoff']:
            tags.append('backoff-0')
        nontrivial = any(l.startswith('r') or l == 'f' for l in alll)
        key = (str(case.get('script')), case['seed'], case.get('idorder'), tuple(str(x) for x in case['backoff']), case.get('preload'), str(pools), case['nmsg'], case.get('steps'),
               tuple(map(str, R.actions)))
        return CaseResult(mismatch, hits, key if nontrivial else None, tags)
    finally:
        qmod.time = saved_time
        dmod.uuid = saved_uuid
        try:
            if q is not None:
                q.kill(block=False)
            ann.put(None)
            for k, (gate, box) in list(R.inflight.items()):
                box['outcome'] = 'ok'
        except Exception:
            pass
