"""C06 — a relay hop preserves sender, recipients and content end to end.

Implementation: real StaticSmtpRelay (SmtpRelayClient + smtp.Client) -> socketpair -> real SmtpEdge (SmtpSession + smtp.Server)
with a recording queue; real HttpRelay -> loopback -> pywsgi -> real WsgiEdge; real StaticLmtpRelay -> recording LMTP peer.
The bytes on the wire are tapped. Compared: envelope given to Relay.attempt vs envelope received by the edge's queue; the
relay's result vs the reply the edge gave; the client's view of the extensions vs what the server offered; the command
lines / header values on the wire vs Model/Wire.lean (`wire ...` of the Lean driver), and what the server made of them vs
Model/Server.lean's parsers.
"""
import base64
import re

from harness.core import CaseResult, hit, rng_for
from harness.props.c20 import gen_wf

RULE = ('kind=hop: transport {smtp, http, lmtp} x envelopes (sender in {null, plain, quoted local part with space / ">" / "@", UTF-8}, 1..20 recipients of '
        'the same shapes, header block and body from the C20 generator incl. 8-bit, NUL, lone dots, bare CR / LF, no final newline) x server '
        'configuration (PIPELINING / 8BITMIME / SMTPUTF8 / SIZE offered or not, EHLO answered 500 -> HELO, queue answering 250 / 4xx / 5xx) x '
        'connection reuse (two messages on one connection). kind=unit: extension lines, base64, recipient header splitting, MAIL/RCPT lines on '
        'random inputs against the model. distinct = distinct case descriptor; non-trivial = every case.')
BUDGET_S = {'quick': 170, 'thorough': 1200}

LOCALS = ['user', 'first.last', 'a+tag', '"quoted local"', '"esc\\"aped>x"', '"back\\\\slash"', '"dir\\\\"', '"q\\\\\\">x"', '"\\\\\\\\"', '"a>b"', '"at@sign"', '"semi;colon,comma"', 'uüñ', '你好', 'x' * 40, '"sp  ace"']
DOMAINS = ['example.com', 'sub.domain.example', 'xn--bcher-kva.example', 'bücher.example', '[127.0.0.1]']


def gen_addr(rng, utf8_ok):
    for _ in range(20):
        a = rng.choice(LOCALS) + '@' + rng.choice(DOMAINS)
        try:
            a.encode('ascii')
            return a
        except UnicodeError:
            if utf8_ok:
                return a
    return 'user@example.com'


def cases(tier, seed, phase):
    n = 700 if tier == 'quick' else 9000
    for j in range(n):
        def mk(j=j):
            rng = rng_for(seed, 'c06h', j)
            transport = rng.choice(['smtp', 'smtp', 'smtp', 'http', 'lmtp'])
            cfg = {'pipelining': rng.random() < 0.7, 'eightbit': rng.random() < 0.8, 'smtputf8': rng.random() < 0.7,
                   'size': rng.choice([None, None, 100000]), 'ehlo500': transport == 'smtp' and rng.random() < 0.1,
                   'queue': rng.choice(['250', '250', '250', '451', '550', '452r'])}
            cfg['tls'] = transport == 'smtp' and not cfg['ehlo500'] and rng.random() < 0.15
            cfg['auth'] = cfg['tls'] and rng.random() < 0.5
            cfg['callables'] = rng.random() < 0.15
            if cfg['ehlo500']:
                cfg.update(pipelining=False, eightbit=False, smtputf8=False, size=None)
            # without SMTPUTF8 a non-ASCII address cannot be sent: the relay must refuse (553), never deliver a changed address
            utf8_ok = cfg['smtputf8'] or transport == 'http' or rng.random() < 0.25
            msgs = []
            for _ in range(rng.choice([1, 1, 2])):
                sender = '' if rng.random() < 0.15 else gen_addr(rng, utf8_ok)
                rcpts = []
                for _ in range(rng.choice([1, 1, 2, 3, 5, 20])):
                    r = gen_addr(rng, utf8_ok)
                    if r not in rcpts:
                        rcpts.append(r)
                if rng.random() < 0.15:
                    # the same recipient listed twice (an envelope is a list, not a set): both entries must arrive, in place
                    rcpts.insert(rng.randrange(len(rcpts) + 1), rng.choice(rcpts))
                wf = gen_wf(rng)
                h, blank, body = bytes.fromhex(wf['h']), bytes.fromhex(wf['blank']), bytes.fromhex(wf['body'])
                if not (cfg['eightbit'] or transport == 'http'):
                    body = bytes(b & 0x7f for b in body)
                    h = bytes(b & 0x7f for b in h)
                msgs.append({'sender': sender, 'rcpts': rcpts, 'data': (h + blank + body).hex()})
            return {'kind': 'hop', 'transport': transport, 'cfg': cfg, 'msgs': msgs}
        yield mk
    # some recipients refused by the edge (others accepted, some listed twice): each recipient's result is the reply the edge gave it
    for j in range(150 if tier == 'quick' else 3000):
        def mk(j=j):
            rng = rng_for(seed, 'c06j', j)
            rcpts = []
            for _ in range(rng.choice([2, 3, 4, 6])):
                r = gen_addr(rng, False)
                if r not in rcpts:
                    rcpts.append(r)
            if rng.random() < 0.5:
                rcpts.insert(rng.randrange(len(rcpts) + 1), rng.choice(rcpts))
            distinct = list(dict.fromkeys(rcpts))
            reject = [r for r in distinct if rng.random() < 0.4]
            if len(reject) == len(distinct):
                reject = reject[1:]
            wf = gen_wf(rng)
            data = bytes(b & 0x7f for b in bytes.fromhex(wf['h']) + bytes.fromhex(wf['blank']) + bytes.fromhex(wf['body']))
            cfg = {'pipelining': rng.random() < 0.6, 'eightbit': True, 'smtputf8': False, 'size': None, 'ehlo500': False, 'queue': '250',
                   'tls': False, 'auth': False, 'reject': reject}
            msgs = [{'sender': gen_addr(rng, False), 'rcpts': rcpts, 'data': data.hex()}]
            if j % 3 == 0:
                # a first message over the same (kept) connection every recipient of which the edge refuses: the transaction it leaves
                # behind must not reach into the next message
                bad = ['nobody%d@refused.example' % i for i in range(rng.choice([1, 2]))]
                cfg['reject'] = reject + bad
                msgs.insert(0, {'sender': gen_addr(rng, False), 'rcpts': bad, 'data': data.hex()})
            return {'kind': 'hopreject', 'transport': 'smtp', 'cfg': cfg, 'msgs': msgs}
        yield mk
    # a first message the edge refuses at the END of its data (it is over the SIZE limit: 552), then an ordinary message over the same
    # kept connection: the refused transaction must leave nothing behind at either end (the edge's session keeps its envelope object
    # until the next MAIL / RSET; the relay client resets the transaction)
    for j in range(60 if tier == 'quick' else 1200):
        def mk(j=j):
            rng = rng_for(seed, 'c06b', j)
            def one(big):
                wf = gen_wf(rng)
                data = bytes(b & 0x7f for b in bytes.fromhex(wf['h']) + bytes.fromhex(wf['blank']) + bytes.fromhex(wf['body']))
                if big:
                    data += b'padding line to get over the limit\r\n' * 40
                elif len(data) > 600:
                    data = b'Subject: a small one\r\nX-Note: after the refused message\r\n\r\nbody line\r\n.leading dot\r\n'
                return {'sender': gen_addr(rng, False), 'rcpts': list(dict.fromkeys(gen_addr(rng, False) for _ in range(rng.choice([1, 2, 3])))), 'data': data.hex()}
            cfg = {'pipelining': rng.random() < 0.6, 'eightbit': True, 'smtputf8': False, 'size': 800, 'ehlo500': False, 'queue': '250',
                   'tls': False, 'auth': False, 'reject': []}
            msgs = [one(True), one(False)] + ([one(False)] if rng.random() < 0.3 else [])
            return {'kind': 'hopbig', 'transport': 'smtp', 'cfg': cfg, 'msgs': msgs}
        yield mk
    # two HTTP deliveries in flight at the same edge at once: the head and part of the body of one request arrive, then the whole
    # other request, then the rest of the first
    for j in range(40 if tier == 'quick' else 600):
        def mk(j=j):
            rng = rng_for(seed, 'c06p', j)
            msgs = []
            for k in range(2):
                wf = gen_wf(rng)
                data = bytes.fromhex(wf['h']) + bytes.fromhex(wf['blank']) + bytes.fromhex(wf['body']) + b'filler %d\r\n' % k * rng.choice([1, 50])
                msgs.append({'sender': gen_addr(rng, True), 'rcpts': [gen_addr(rng, True) for _ in range(rng.choice([1, 2, 3]))], 'data': data.hex()})
            return {'kind': 'wsgipair', 'msgs': msgs, 'cutfrac': rng.random()}
        yield mk
    for j in range(1500 if tier == 'quick' else 30000):
        def mk(j=j):
            rng = rng_for(seed, 'c06u', j)
            what = rng.choice(['ext', 'b64', 'split', 'mail', 'xreply', 'wsgiraw'])
            if what == 'wsgiraw':
                opts = [o for o in ('norcpt', 'noehlo') if rng.random() < 0.4]
                data = b'Subject: x\r\n\r\n' + bytes(rng.choice(b'abc\r\n.') for _ in range(rng.randint(0, 30)))
                if rng.random() < 0.5:
                    opts.append('cl=%d' % rng.randint(0, len(data)))
                return {'kind': 'unit', 'what': 'wsgiraw', 'opts': opts, 'sender': gen_addr(rng, True), 'rcpts': [gen_addr(rng, True) for _ in range(rng.choice([1, 2]))],
                        'data': data.hex()}
            if what == 'xreply':
                return {'kind': 'unit', 'what': 'xreply', 'code': rng.choice(['250', '250', '451', '550', '535', '421', '200', '599']),
                        'msg': rng.choice(['2.6.0 Message accepted', '', 'say "hi"', 'back\\slash', 'semi; colon = x', ' leading space', '5.7.1 nope; command="X"', 'tab\there']),
                        'cmd': rng.choice([None, None, 'DATA', 'RCPT', 'a"b'])}
            if what == 'ext':
                name = rng.choice(['SIZE', 'AUTH', '8BITMIME', 'X-Foo', 'pipelining', 'A1-b', 'STARTTLS'])
                param = rng.choice([None, None, '', '1000', 'PLAIN LOGIN', 'a  b', '=x', 'x' * 30])
                pad = rng.choice(['', '', ' ', '  \t'])
                return {'kind': 'unit', 'what': 'ext', 'name': name, 'param': param, 'pad': pad}
            if what == 'b64':
                return {'kind': 'unit', 'what': 'b64', 'data': bytes(rng.randrange(256) for _ in range(rng.randint(0, 40))).hex()}
            if what == 'split':
                toks = [base64.b64encode(bytes(rng.randrange(256) for _ in range(rng.randint(1, 12)))).decode() for _ in range(rng.randint(1, 6))]
                seps = [rng.choice([',', ', ', ' , ', ';', ' ;  ', ',\t']) for _ in toks[1:]]
                return {'kind': 'unit', 'what': 'split', 'toks': toks, 'seps': seps}
            addr = rng.choice(['', 'a@b.c', '"q q"@x.y', '"a>b"@c.d', 'a>b@c.d', '"open@x.y', 'uü@x.y', 'a@b.c> SIZE=5', '"a""b>"@c', '"dir\\\\"@e.f', '"x\\\\\\">y"@e.f', '"\\\\"@e.f> SIZE=1'])
            return {'kind': 'unit', 'what': 'mail', 'addr': addr, 'size': rng.choice([None, 0, 12, 99999]), 'utf8': rng.random() < 0.6}
        yield mk


# ---------------------------------------------------------------------------------------------------------------------

class Tap(object):
    """Socket proxy that records what the server reads."""

    def __init__(self, sock):
        self._s = sock
        self.inbound = b''
        self.outbound = b''

    def recv(self, n, *a):
        d = self._s.recv(n, *a)
        self.inbound += d
        return d

    def sendall(self, d, *a):
        self.outbound += bytes(d)
        return self._s.sendall(d, *a)

    def send(self, d, *a):
        n = self._s.send(d, *a)
        self.outbound += bytes(d[:n])
        return n

    def __getattr__(self, name):
        return getattr(self._s, name)


class RecQueue(object):
    def __init__(self, verdict):
        self.verdict = verdict
        self.got = []

    def enqueue(self, envelope):
        from slimta.queue import QueueError
        from slimta.smtp.reply import Reply
        h, b = envelope.flatten()
        self.got.append({'sender': envelope.sender, 'rcpts': list(envelope.recipients), 'data': h + b,
                         'auth': (envelope.client or {}).get('auth'), 'ehlo': (envelope.client or {}).get('name')})
        v = self.verdict
        if v == '250':
            return [(envelope, 'id%d' % len(self.got))]
        e = QueueError('no')
        if v == '452r':
            e.reply = Reply('452', '4.3.1 Insufficient system storage')
        elif v == '550':
            e.reply = Reply('550', '5.7.1 Not here')
        return [(envelope, e)]


def make_env(m):
    from slimta.envelope import Envelope
    env = Envelope(m['sender'], list(m['rcpts']))
    env.parse(bytes.fromhex(m['data']))
    return env


def attempt(relay, env):
    import gevent
    from slimta.relay import RelayError
    box = {}

    def go():
        try:
            box['ret'] = relay.attempt(env, 0)
        except RelayError as e:
            box['exc'] = e
        except BaseException as e:
            box['other'] = e
    g = gevent.spawn(go)
    g.join(6)
    if not g.ready():
        g.kill(block=False)
        return 'hung', None
    if 'other' in box:
        return 'other:' + type(box['other']).__name__, None
    if 'exc' in box:
        rep = getattr(box['exc'], 'reply', None)
        return 'raised', (rep.code if rep is not None else None)
    ret = box['ret']
    codes = []
    if hasattr(ret, 'items'):
        for r in env.recipients:
            v = ret.get(r)
            rep = getattr(v, 'reply', v)
            codes.append(getattr(rep, 'code', None))
    else:
        codes = [getattr(ret, 'code', None)]
    return 'ret', codes


def expected_code(verdict):
    return {'250': '250', '451': '451', '550': '550', '452r': '452'}[verdict]


def content_equal(sent, got):
    """byte-identical modulo the final CRLF added when the original did not end with one (C05)"""
    return got == sent or got == sent + b'\r\n'


def run_hop_smtp(case, model):
    import gevent
    from gevent import socket
    import slimta.edge.smtp as esmtp
    from slimta.edge.smtp import SmtpEdge, SmtpValidators
    from slimta.relay.smtp.static import StaticSmtpRelay
    cfg = case['cfg']
    q = RecQueue(cfg['queue'])
    taps, servers, clients = [], [], []
    RealServer = esmtp.Server

    class CfgServer(RealServer):
        def __init__(self, *a, **kw):
            RealServer.__init__(self, *a, **kw)
            if not cfg['pipelining']:
                self.extensions.drop('PIPELINING')
            if not cfg['eightbit']:
                self.extensions.drop('8BITMIME')
            if not cfg['smtputf8']:
                self.extensions.drop('SMTPUTF8')
            servers.append(self)

    class V(SmtpValidators):
        def handle_ehlo(self, reply, ehlo_as):
            if cfg['ehlo500']:
                reply.code = '500'
                reply.message = '5.5.1 EHLO not spoken here'

        def handle_rcpt(self, reply, recipient, params):
            if recipient in cfg.get('reject', ()):
                reply.code = '550'
                reply.message = '5.1.1 no such user'
    esmtp.Server = CfgServer
    tls_kw, relay_kw = {}, {}
    if cfg.get('tls'):
        from harness.props.c14 import tls_context, client_tls_context
        tls_kw = {'context': tls_context(), 'auth': bool(cfg.get('auth'))}
        relay_kw = {'context': client_tls_context()}
        if cfg.get('auth'):
            relay_kw['credentials'] = (lambda: ('user', 'secret')) if cfg.get('callables') else ('user', 'secret')
    edge = SmtpEdge(None, q, max_size=cfg['size'], validator_class=V, hostname='edge.example', **tls_kw)

    def creator(address):
        a, b = socket.socketpair()
        tap = Tap(b)
        taps.append(tap)
        gevent.spawn(edge.handle, tap, ('127.0.0.1', 40000))
        return a
    # ehlo_as and credentials may be given as callables (the relay calls them per connection)
    relay = StaticSmtpRelay('edge.example', 25, socket_creator=creator, ehlo_as=(lambda address: 'relay.example') if cfg.get('callables') else 'relay.example',
                            idle_timeout=0.5, command_timeout=3, data_timeout=3, **relay_kw)
    orig_add = relay.add_client

    def add_client():
        c = orig_add()
        clients.append(c)
        return c
    relay.add_client = add_client
    results = []
    import slimta.smtp.client as sclient
    real_send_data = sclient.Client.send_data
    handed = []          # the parts the relay client handed to Client.send_data, one entry per message that got that far

    def send_data(self, *data):
        handed.append([bytes(d) for d in data])
        return real_send_data(self, *data)
    sclient.Client.send_data = send_data
    try:
        for m in case['msgs']:
            results.append(attempt(relay, make_env(m)))
    finally:
        sclient.Client.send_data = real_send_data
        esmtp.Server = RealServer
        for c in list(relay.pool):
            c.kill(block=False)
    q.handed = handed
    return q, taps, servers, clients, results


def run_hop_http(case, model):
    import gevent
    from slimta.edge.wsgi import WsgiEdge
    from slimta.relay.http import HttpRelay
    cfg = case['cfg']
    q = RecQueue(cfg['queue'])
    seen = []

    class TappedEdge(WsgiEdge):
        # what the WSGI server hands the edge for each request (the header values Model/HttpHop.lean's environGet stands for) and the
        # envelope the edge makes of it
        def _get_envelope(self, environ):
            rec = dict((k, environ.get(k)) for k in ('CONTENT_LENGTH', 'HTTP_X_EHLO', 'HTTP_X_ENVELOPE_SENDER', 'HTTP_X_ENVELOPE_RECIPIENT'))
            env = WsgiEdge._get_envelope(self, environ)
            h, b = env.flatten()
            rec.update(ehlo=self._get_ehlo(environ), sender=env.sender, rcpts=list(env.recipients), data=h + b)
            seen.append(rec)
            return env
    edge = TappedEdge(q, hostname='edge.example')
    server = edge.build_server(('127.0.0.1', 0))
    server.log = None
    server.start()
    relay = HttpRelay('http://127.0.0.1:%d/' % server.server_port, ehlo_as='relay.example', timeout=5, idle_timeout=0.5)
    results = []
    sent = []
    try:
        for m in case['msgs']:
            env = make_env(m)
            h, b = env.flatten()
            sent.append({'sender': env.sender, 'rcpts': list(env.recipients), 'data': h + b})
            results.append(attempt(relay, env))
    finally:
        server.stop()
        for c in list(relay.pool):
            c.kill(block=False)
    q.http_mismatch = compare_http_hop(model, sent, seen)
    return q, results


def compare_http_hop(model, sent, seen):
    """Model/HttpHop.lean against the real hop, request by request: the header values as the WSGI server presented them to the real
    edge (Content-Length, X-Ehlo, X-Envelope-Sender, the X-Envelope-Recipient values joined by the server) = the model's environ of the
    model's request; what the real edge made of them = the model's edgeEnvelope. (A request the relay had to send twice — the second
    one on a kept-alive connection is answered ResponseNotReady and retried on a new connection — is seen twice.)"""
    def hx_(b):
        return b.hex() or '-'
    want = []
    for s in sent:
        line = 'wire httphop %s %s %s %s' % (hx_(b'relay.example'), hx_(s['sender'].encode('utf-8')),
                                             ','.join(hx_(r.encode('utf-8')) if r else '_' for r in s['rcpts']) or '-', hx_(s['data']))
        want.append((line, model.ask(line)))
    k = 0
    for rec in seen:
        # find the sent message this request belongs to (in order; a repeated request matches the same message again)
        def render(rec):
            g = lambda v: 'none' if v is None else (v.encode('latin-1').hex() or '-')
            env = 'cl=%s ehlo=%s sender=%s rcpt=%s' % (g(rec['CONTENT_LENGTH']), g(rec['HTTP_X_EHLO']), g(rec['HTTP_X_ENVELOPE_SENDER']), g(rec['HTTP_X_ENVELOPE_RECIPIENT']))
            out = '%s %s %s %s' % (hx_(rec['ehlo'].encode('utf-8')), hx_(rec['sender'].encode('utf-8')),
                                   ','.join(hx_(r.encode('utf-8')) if r else '_' for r in rec['rcpts']) or '-', hx_(rec['data']))
            return env + ' || ' + out
        got = render(rec)
        while k < len(want) and want[k][1] != got and k + 1 < len(want) and want[k + 1][1] == got:
            k += 1
        if k >= len(want) or want[k][1] != got:
            return {'op': 'wire httphop', 'impl': got[:700], 'model': (want[min(k, len(want) - 1)][1] if want else 'nothing sent')[:700],
                    'line': (want[min(k, len(want) - 1)][0] if want else '')[:300]}
    return None


def run_hop_lmtp(case, model):
    """The library has no LMTP server: the peer is a recording LMTP server of the harness, parsing with the library's own DataReader."""
    import gevent
    from gevent import socket
    from slimta.relay.smtp.static import StaticLmtpRelay
    from slimta.smtp.datareader import DataReader
    from slimta.smtp.io import IO
    cfg = case['cfg']
    got = []
    lines_seen = []

    def serve(sock):
        io = IO(sock)
        try:
            sock.sendall(b'220 lmtp ready\r\n')
            cur = None
            while True:
                line = b''
                while not line.endswith(b'\n'):
                    if not io.recv_buffer:
                        d = sock.recv(4096)
                        if not d:
                            return
                        io.recv_buffer += d
                    i = io.recv_buffer.find(b'\n')
                    if i >= 0:
                        line += io.recv_buffer[:i + 1]
                        io.recv_buffer = io.recv_buffer[i + 1:]
                    else:
                        line += io.recv_buffer
                        io.recv_buffer = b''
                lines_seen.append(line)
                u = line.upper()
                if u.startswith(b'LHLO'):
                    ext = [b'8BITMIME'] if cfg['eightbit'] else []
                    if cfg['pipelining']:
                        ext.append(b'PIPELINING')
                    if cfg['smtputf8']:
                        ext.append(b'SMTPUTF8')
                    ext.append(b'ENHANCEDSTATUSCODES')
                    out = b'250-lmtp.example\r\n' + b''.join(b'250-' + e + b'\r\n' for e in ext[:-1]) + b'250 ' + ext[-1] + b'\r\n'
                    sock.sendall(out)
                elif u.startswith(b'MAIL'):
                    cur = {'mail': line, 'rcpt': []}
                    sock.sendall(b'250 2.1.0 ok\r\n')
                elif u.startswith(b'RCPT'):
                    cur['rcpt'].append(line)
                    sock.sendall(b'250 2.1.5 ok\r\n')
                elif u.startswith(b'DATA'):
                    sock.sendall(b'354 go\r\n')
                    data = DataReader(io).recv()
                    cur['data'] = data
                    got.append(cur)
                    code = expected_code(cfg['queue'])
                    for _ in cur['rcpt']:
                        sock.sendall(('%s %s.0.0 done\r\n' % (code, code[0])).encode())
                    cur = None
                elif u.startswith(b'RSET'):
                    sock.sendall(b'250 2.0.0 ok\r\n')
                elif u.startswith(b'QUIT'):
                    sock.sendall(b'221 2.0.0 bye\r\n')
                    return
                else:
                    sock.sendall(b'500 5.5.2 what\r\n')
        except OSError:
            pass
        finally:
            sock.close()

    def creator(address):
        a, b = socket.socketpair()
        gevent.spawn(serve, b)
        return a
    relay = StaticLmtpRelay('lmtp.example', 24, socket_creator=creator, ehlo_as='relay.example', idle_timeout=0.5, command_timeout=3, data_timeout=3)
    results = []
    try:
        for m in case['msgs']:
            results.append(attempt(relay, make_env(m)))
    finally:
        for c in list(relay.pool):
            c.kill(block=False)
    return got, results


ADDR_RE = re.compile(rb'^[A-Za-z]+ [A-Za-z]+:<(.*)>( SIZE=\d+)?\r?\n$', re.S)


def run_hop_reject(case, model):
    cfg = case['cfg']
    q, taps, servers, clients, results = run_hop_smtp(case, model)
    hits = []
    if len(case['msgs']) == 2:
        k0, c0 = results[0]
        if not ((k0 == 'raised' and c0 == '550') or (k0 == 'ret' and all(c == '550' for c in c0))):
            hits.append(hit('c06.result-differs-from-edge-reply.smtp', 'every recipient of the first message was refused with 550 and the relay reports something else',
                            observed={'kind': k0, 'codes': c0}, expected='550'))
        results = results[1:]
    m = case['msgs'][-1]
    kind, codes = results[0]
    want = ['550' if r in cfg['reject'] else '250' for r in m['rcpts']]
    accepted = [r for r in m['rcpts'] if r not in cfg['reject']]
    if kind != 'ret' or codes != want:
        hits.append(hit('c06.result-differs-from-edge-reply.smtp', 'the relay reports for a recipient something else than the reply the edge gave it',
                        observed={'kind': kind, 'codes': codes}, expected=want))
    elif len(q.got) != 1 or q.got[0]['sender'] != m['sender'] or q.got[0]['rcpts'] != accepted:
        hits.append(hit('c06.recipients-changed.smtp', 'the edge did not receive exactly the recipients it accepted, in order',
                        observed=[(g['sender'], g['rcpts'][:6]) for g in q.got], expected=(m['sender'], accepted[:6])))
    tags = ['hop-smtp-rcpt-refused', 'pipelining' if cfg['pipelining'] else 'no-pipelining']
    if len(set(m['rcpts'])) < len(m['rcpts']):
        tags.append('duplicate-recipient')
    return CaseResult(None, hits, ('hopreject', repr(sorted(cfg.items(), key=str)), repr(m)), tags)


def run_hop_big(case, model):
    cfg = case['cfg']
    q, taps, servers, clients, results = run_hop_smtp(case, model)
    hits = []
    k0, c0 = results[0]
    if not ((k0 == 'raised' and c0 == '552') or (k0 == 'ret' and c0 and all(c == '552' for c in c0))):
        hits.append(hit('c06.result-differs-from-edge-reply.smtp', 'the edge refused the first message at the end of its data (552) and the relay reports something else',
                        observed={'kind': k0, 'codes': c0}, expected='552'))
    rest = case['msgs'][1:]
    for m, (kind, codes) in zip(rest, results[1:]):
        if kind != 'ret' or any(c != '250' for c in codes):
            hits.append(hit('c06.result-differs-from-edge-reply.smtp', 'a message after the refused one was not reported delivered although the edge took it',
                            observed={'kind': kind, 'codes': codes}, expected='250'))
            break
    if not hits:
        want = [(m['sender'], m['rcpts']) for m in rest]
        got = [(g['sender'], g['rcpts']) for g in q.got]
        if got != want:
            hits.append(hit('c06.recipients-changed.smtp', 'after a message refused at the end of its data the next message did not arrive with exactly its own sender and recipients',
                            observed=got[:3], expected=want[:3]))
        else:
            for m, g in zip(rest, q.got):
                h, b = make_env(m).flatten()      # what the relay was given to send (line ends of the header block normalised by the envelope)
                if not content_equal(h + b, g['data']):
                    hits.append(hit('c06.content-changed.smtp', 'content changed after a refused message on the same connection', observed=g['data'][:80].hex()))
                    break
    tags = ['hop-smtp-after-552', 'pipelining' if cfg['pipelining'] else 'no-pipelining', 'connections=%d' % len(taps)]
    return CaseResult(None, hits, ('hopbig', repr(sorted(cfg.items(), key=str)), repr(case['msgs'])[:2000]), tags)


def run_wsgi_pair(case, model):
    """Raw requests as the real HttpRelay writes them (captured first), replayed interleaved against one WsgiEdge."""
    import gevent
    from gevent import socket
    from gevent.server import StreamServer
    from slimta.edge.wsgi import WsgiEdge
    from slimta.relay.http import HttpRelay
    raws = []

    def capture(sock, addr):
        f = sock.makefile('rb')
        head = b''
        clen = 0
        while True:
            l = f.readline()
            if not l:
                return
            head += l
            if l.lower().startswith(b'content-length:'):
                clen = int(l.split(b':')[1])
            if l in (b'\r\n', b'\n'):
                break
        body = f.read(clen)
        raws.append((head, body))
        sock.sendall(b'HTTP/1.1 200 OK\r\nContent-Length: 0\r\nX-Smtp-Reply: 250; message="2.6.0 ok"\r\n\r\n')
    cap = StreamServer(('127.0.0.1', 0), capture)
    cap.start()
    hits = []
    q = RecQueue('250')
    edge = WsgiEdge(q, hostname='edge.example')
    server = edge.build_server(('127.0.0.1', 0))
    server.log = None
    server.start()
    try:
        relay = HttpRelay('http://127.0.0.1:%d/' % cap.server_port, ehlo_as='relay.example', timeout=5)
        for m in case['msgs']:
            attempt(relay, make_env(m))
        for c in list(relay.pool):
            c.kill(block=False)
        if len(raws) != 2:
            return CaseResult(None, [hit('c06.harness.capture', 'could not capture the requests', observed=len(raws))], None, ['wsgipair'])
        (ha, ba), (hb, bb) = raws
        k = max(1, min(len(ba) - 1, int(case['cutfrac'] * len(ba)))) if len(ba) > 1 else 0
        statuses = []

        def talk(sock):
            f = sock.makefile('rb')
            line = f.readline()
            statuses.append(line.split(b' ')[1] if line else None)
        with gevent.Timeout(8, False):
            sa = socket.create_connection(('127.0.0.1', server.server_port))
            sa.sendall(ha + ba[:k])
            gevent.sleep(0.02)
            sb = socket.create_connection(('127.0.0.1', server.server_port))
            sb.sendall(hb + bb)
            talk(sb)
            sa.sendall(ba[k:])
            talk(sa)
            sa.close()
            sb.close()
        sent = []
        for m in case['msgs']:
            env = make_env(m)
            h, b = env.flatten()
            sent.append((m['sender'], list(m['rcpts']), h + b))
        got = [(g['sender'], g['rcpts'], g['data']) for g in q.got]
        if len(statuses) != 2 or any(st is None or not st.startswith(b'2') for st in statuses):
            hits.append(hit('c06.wsgi-pair-not-accepted', 'two overlapping HTTP deliveries were not both accepted', observed=[str(x) for x in statuses]))
        else:
            for snd, rcs, data in sent:
                if not any(g[0] == snd and g[1] == rcs and content_equal(data, g[2]) for g in got):
                    same_body = [g for g in got if content_equal(data, g[2])]
                    hits.append(hit('c06.overlapping-http-deliveries-mixed', 'with two HTTP deliveries in flight at once a message was queued with '
                                    'another sender / other recipients (or not at all)', observed=[(g[0], g[1][:3]) for g in same_body] or 'missing',
                                    expected=(snd, rcs[:3])))
                    break
    finally:
        server.stop()
        cap.stop()
    key = ('wsgipair', repr(case['msgs']), round(case['cutfrac'], 3))
    return CaseResult(None, hits, key, ['wsgipair'])


def run_hop(case, model):
    cfg = case['cfg']
    hits = []
    mismatch = None
    want_code = expected_code(cfg['queue'])
    tr = case['transport']
    sent = []
    for m in case['msgs']:
        env = make_env(m)
        h, b = env.flatten()
        sent.append({'sender': m['sender'], 'rcpts': list(m['rcpts']), 'data': h + b})

    def compare(received, results, decode_addr=None):
        nonlocal mismatch
        # pair what the relay was given with what the edge received, in order; a message the relay reports as failed may
        # legitimately not have reached the edge at all
        gi = 0
        for s, (kind, codes) in zip(sent, results):
            if kind in ('hung',) or kind.startswith('other'):
                hits.append(hit('c06.attempt-failed-oddly.%s.%s' % (tr, kind), 'the relay attempt hung or raised a non-relay error', observed=kind))
                return
            g = received[gi] if gi < len(received) else None
            success = kind == 'ret' and all(c is not None and c.startswith('2') for c in codes)
            if g is None or (not success and (g['sender'], g['rcpts']) != (s['sender'], s['rcpts'])):
                if success:
                    hits.append(hit('c06.delivered-message-not-received.' + tr, 'the relay reports success for a message the edge never received',
                                    observed={'codes': codes}, expected=s['sender']))
                    return
                continue            # reported as failed and not received: nothing to compare
            gi += 1
            if g['sender'] != s['sender']:
                hits.append(hit('c06.sender-changed.' + tr, 'the sender arrived changed', observed=g['sender'], expected=s['sender']))
            elif g['rcpts'] != s['rcpts']:
                hits.append(hit('c06.recipients-changed.' + tr, 'the recipients arrived changed (value or order)', observed=g['rcpts'][:5], expected=s['rcpts'][:5]))
            elif not content_equal(s['data'], g['data']):
                hits.append(hit('c06.content-changed.' + tr, 'header block / body arrived changed', observed=g['data'][:200].hex(), expected=s['data'][:200].hex()))
            if hits:
                return
            # the edge received it: the relay must report the reply the edge gave
            if kind == 'raised':
                ok = codes == want_code and want_code != '250'
            elif tr == 'lmtp':
                ok = all(c == want_code for c in codes)
            else:
                ok = want_code == '250' and all(c == want_code for c in codes)
            if not ok:
                hits.append(hit('c06.result-differs-from-edge-reply.' + tr, 'the relay reports something else than the reply the edge gave',
                                observed={'kind': kind, 'codes': codes}, expected=want_code))
                return
        if gi < len(received):
            hits.append(hit('c06.unexpected-message-received.' + tr, 'the edge received a message the relay was not given (or a duplicate)',
                            observed={'received': len(received), 'matched': gi}))

    if tr == 'smtp':
        q, taps, servers, clients, results = run_hop_smtp(case, model)
        compare(q.got, results)
        # the client sees exactly the extensions the server advertised
        if servers and clients and clients[0].client is not None and not cfg['ehlo500']:
            offered = dict((k, (str(v) if v is not None else None)) for k, v in servers[0].extensions.extensions.items())
            seen = dict((k, (str(v) if v is not None else None)) for k, v in clients[0].client.extensions.extensions.items())
            if offered != seen:
                hits.append(hit('c06.extensions-differ', 'the client does not see exactly the extensions the server advertised', observed=seen, expected=offered))
        # after STARTTLS the client must have seen the extensions of the second EHLO, and the session must be encrypted / authenticated
        if cfg.get('tls') and servers:
            if not servers[0].encrypted:
                hits.append(hit('c06.tls-offered-but-not-used', 'the relay did not start TLS although the edge offered it', observed=False))
            if cfg.get('auth') and q.got and not all(g.get('auth') for g in q.got):
                hits.append(hit('c06.credentials-not-presented', 'the message arrived without the authentication the relay was configured with',
                                observed=[g.get('auth') for g in q.got][:3]))
        # command lines on the wire vs the model (clear-text sessions only: under TLS the tap sees ciphertext)
        wire = b''.join(t.inbound for t in taps) if not cfg.get('tls') else b''
        lines = [l + b'\n' for l in wire.split(b'\n') if l[:4].upper() in (b'MAIL', b'RCPT')]
        want_lines = []
        for s, m in zip(sent, case['msgs']):
            size = None          # the relay client does not pass the message size to Client.mailfrom
            enc = 'utf-8' if cfg['smtputf8'] and not cfg['ehlo500'] else 'ascii'
            try:
                (s['sender'] + ''.join(s['rcpts'])).encode(enc)
            except UnicodeError:
                continue            # nothing of this message goes on the wire
            ml = model.ask('wire mail %s %s' % (s['sender'].encode(enc).hex() or '-', size or '-'))
            want_lines.append(bytes.fromhex(ml) + b'\r\n')
            for r in s['rcpts']:
                want_lines.append(bytes.fromhex(model.ask('wire rcpt %s' % (r.encode(enc).hex() or '-'))) + b'\r\n')
        if lines != want_lines and mismatch is None and not hits and not cfg.get('tls'):
            mismatch = {'op': 'wire mail/rcpt', 'impl': [l.decode('latin-1') for l in lines[:4]], 'model': [l.decode('latin-1') for l in want_lines[:4]]}
        # the whole transaction on the wire (MAIL .. end-of-data line) vs the model's hopBytes, the byte string
        # hop_delivers / session_delivers are stated about; parts = what the relay client handed to Client.send_data
        enc_msgs = []
        for s in sent:
            enc = 'utf-8' if cfg['smtputf8'] and not cfg['ehlo500'] else 'ascii'
            try:
                enc_msgs.append((s['sender'].encode(enc), [r.encode(enc) for r in s['rcpts']]))
            except UnicodeError:
                pass
        if len(enc_msgs) == len(q.handed) and mismatch is None and not hits and not cfg.get('tls'):
            pos = 0
            for (snd, rcs), parts in zip(enc_msgs, q.handed):
                p0 = wire.find(b'MAIL FROM:', pos)
                hop = bytes.fromhex(model.ask('wire hop %s %s %s' % (snd.hex() or '-', ','.join(r.hex() or '_' for r in rcs) or '-',
                                                                   ','.join(x.hex() or '_' for x in parts) or '-')).replace('-', ''))
                got_hop = wire[p0:p0 + len(hop)] if p0 >= 0 else None
                if got_hop != hop:
                    mismatch = {'op': 'wire hop', 'impl': repr(got_hop[:300] if got_hop else got_hop), 'model': repr(hop[:300])}
                    break
                pos = p0 + len(hop)
            else:
                case['_hopcmp'] = len(enc_msgs)
        # what the model's server makes of those lines vs what the real server handed to the queue
        real_addrs = []
        for g in q.got:
            real_addrs.append(g['sender'])
            real_addrs.extend(g['rcpts'])
        if len(real_addrs) == len(lines):
            for l, ra in list(zip(lines, real_addrs))[:8]:
                kw = 'from' if l[:4].upper() == b'MAIL' else 'to'
                pm = model.ask('wire parseaddr %s %s' % (kw, l.rstrip(b'\r\n').hex()))
                maddr = None
                if pm.startswith('addr='):
                    x = pm.split(' ')[0][5:]
                    maddr = b'' if x == '-' else bytes.fromhex(x)
                if maddr != ra.encode('utf-8') and mismatch is None:
                    mismatch = {'op': 'wire parseaddr', 'line': l.decode('latin-1'), 'impl': ra, 'model': repr(maddr)}
    elif tr == 'http':
        q, results = run_hop_http(case, model)
        compare(q.got, results)
        if mismatch is None and q.http_mismatch is not None:
            mismatch = q.http_mismatch
    else:
        got, results = run_hop_lmtp(case, model)
        received = []
        for g in got:
            mo = ADDR_RE.match(g['mail'])
            rc = [ADDR_RE.match(r) for r in g['rcpt']]
            received.append({'sender': mo.group(1).decode('utf-8') if mo else None, 'rcpts': [x.group(1).decode('utf-8') if x else None for x in rc],
                             'data': g.get('data', b'')})
        compare(received, results)
    tags = ['hop-' + tr, 'queue=' + cfg['queue'], 'msgs=%d' % len(case['msgs']), 'pipelining' if cfg['pipelining'] else 'no-pipelining']
    if case.get('_hopcmp'):
        tags.append('wire-hop-compared')
    if cfg.get('tls'):
        tags.append('starttls+auth' if cfg.get('auth') else 'starttls')
    if cfg['ehlo500']:
        tags.append('helo-fallback')
    if any(not all(ord(ch) < 128 for ch in s['sender'] + ''.join(s['rcpts'])) for s in sent):
        tags.append('utf8-address')
    if any(len(set(s['rcpts'])) < len(s['rcpts']) for s in sent):
        tags.append('duplicate-recipient')
    if any('"' in s['sender'] + ''.join(s['rcpts']) for s in sent):
        tags.append('quoted-local-part')
    key = ('hop', tr, repr(sorted(cfg.items())), repr(case['msgs']))
    return CaseResult(mismatch, hits, key, tags)


def run_unit(case, model):
    from slimta.smtp.extensions import Extensions
    hits = []
    mismatch = None
    w = case['what']
    if w == 'xreply':
        # the SMTP reply inside an HTTP response: WsgiEdge's _build_http_response writes the header, HttpRelayClient reads it back
        from slimta.edge.wsgi import _build_http_response
        from slimta.relay.http import HttpRelayClient
        from slimta.smtp.reply import Reply
        r = Reply(case['code'], case['msg'], command=case['cmd'])      # (a str: the header builder refuses bytes)
        res = _build_http_response(r)
        hdr = dict(res.headers).get('X-Smtp-Reply')

        class FakeResponse(object):
            def getheader(self, name, default=None):
                return hdr if name == 'X-Smtp-Reply' else default
        back = HttpRelayClient._parse_smtp_reply_header(HttpRelayClient.__new__(HttpRelayClient), FakeResponse())
        msg = r.message or ''
        mm = model.ask('wire xreply %s %s %s' % (case['code'].encode().hex(), msg.encode('utf-8').hex() or '-',
                                                 'none' if not r.command else r.command.hex() if isinstance(r.command, bytes) else r.command.encode().hex()))
        mh, mc = mm.split(' ')
        mhdr = bytes.fromhex(mh).decode('utf-8')
        if mhdr != hdr:
            mismatch = {'op': 'wire xreply (header)', 'impl': hdr, 'model': mhdr}
        elif (back.code if back is not None else 'none') != (bytes.fromhex(mc).decode() if mc != 'none' else 'none'):
            mismatch = {'op': 'wire xreply (code read back)', 'impl': back.code if back is not None else None, 'model': mc}
        if back is None or back.code != case['code']:
            hits.append(hit('c06.http-reply-code-changed', 'the reply code the HTTP edge wrote is not the code the relay reads', observed=getattr(back, 'code', None), expected=case['code']))
        key = ('unit', 'xreply', case['code'], case['msg'], case['cmd'])
        return CaseResult(mismatch, hits, key, ['unit-xreply'])
    if w == 'wsgiraw':
        # requests the relay would not write: no recipient header, no X-Ehlo header, a Content-Length shorter than the body (the edge
        # must cut there). The real WsgiEdge is called as a WSGI application; what it hands the queue vs HttpHop.edgeEnvelope.
        import io
        from slimta.edge.wsgi import WsgiEdge
        q = RecQueue('250')
        edge = WsgiEdge(q, hostname='edge.example')
        data = bytes.fromhex(case['data'])
        b64 = lambda x: base64.b64encode(x.encode('utf-8')).decode()
        cl = len(data)
        for o in case['opts']:
            if o.startswith('cl='):
                cl = int(o[3:])
        environ = {'REQUEST_METHOD': 'POST', 'PATH_INFO': '/', 'CONTENT_TYPE': 'message/rfc822', 'CONTENT_LENGTH': str(cl),
                   'wsgi.input': io.BytesIO(data), 'REMOTE_ADDR': '1.2.3.4', 'wsgi.url_scheme': 'http',
                   'HTTP_X_ENVELOPE_SENDER': b64(case['sender'])}
        if 'noehlo' not in case['opts']:
            environ['HTTP_X_EHLO'] = 'relay.example'
        if 'norcpt' not in case['opts']:
            environ['HTTP_X_ENVELOPE_RECIPIENT'] = ', '.join(b64(r) for r in case['rcpts'])
        box = {}
        try:
            edge(environ, lambda status, headers: box.setdefault('status', status))
        except BaseException as e:
            box['exc'] = type(e).__name__
        hx_ = lambda b: b.hex() or '-'
        ml = model.ask('wire edgeenv %s %s %s %s %s %s' % (hx_(b'[1.2.3.4]'), ','.join(case['opts']) or '-', hx_(b'relay.example'), hx_(case['sender'].encode('utf-8')),
                                                         ','.join(hx_(r.encode('utf-8')) if r else '_' for r in case['rcpts']) or '-', hx_(data)))
        if q.got:
            g = q.got[-1]
            # the queue gets the flattened envelope: compare what the edge read (sender, recipients) and the message it parsed
            from slimta.envelope import Envelope
            ref = Envelope('x', ['y'])
            ref.parse(data[:cl])
            rh, rb = ref.flatten()
            impl = '%s %s %s %s' % (hx_((g.get('ehlo') or '').encode('utf-8')), hx_(g['sender'].encode('utf-8')), ','.join(hx_(r.encode('utf-8')) if r else '_' for r in g['rcpts']) or '-', 'data-as-cut' if g['data'] == rh + rb else 'DATA-DIFFERS')
            parts = ml.split(' ')
            want = ('%s %s %s %s' % (parts[0], parts[1], parts[2], 'data-as-cut' if len(parts) == 4 and parts[3] == hx_(data[:cl]) else 'model-data:' + parts[-1])) if len(parts) == 4 else ml
            if impl != want:
                mismatch = {'op': 'wire edgeenv', 'impl': impl, 'model': want, 'opts': case['opts'], 'status': box}
        elif ml != 'error':
            mismatch = {'op': 'wire edgeenv', 'impl': 'nothing enqueued: %r' % box, 'model': ml, 'opts': case['opts']}
        return CaseResult(mismatch, hits, ('unit', 'wsgiraw', tuple(case['opts']), case['sender'], tuple(case['rcpts']), case['data']), ['unit-wsgiraw'] + ['wsgiraw:' + o.split('=')[0] for o in case['opts']])
    if w == 'ext':
        e = Extensions()
        e.add(case['name'], case['param'])
        built = e.build_string('hello')
        line = built.split('\r\n')[1]
        mb = model.ask('wire extline %s %s' % (case['name'].upper().encode().hex(), 'none' if case['param'] is None else (case['param'].encode().hex() or '-')))
        if bytes.fromhex(mb).decode() != line:
            mismatch = {'op': 'wire extline', 'impl': line, 'model': bytes.fromhex(mb).decode()}
        padded = case['pad'] + line + case['pad']
        e2 = Extensions()
        hdr = e2.parse_string('hello\r\n' + padded)
        got = list(e2.extensions.items())
        mp = model.ask('wire parseext %s' % (padded.encode().hex() or '-'))
        if mp == 'nomatch':
            mgot = []
        else:
            n, p = mp.split(' ')
            mgot = [(bytes.fromhex(n).decode(), None if p == 'none' else bytes.fromhex(p).decode())]
        if got != mgot and mismatch is None:
            mismatch = {'op': 'wire parseext', 'impl': got, 'model': mgot, 'line': padded}
        # ... and the line as a server may write it: the name in its own letter case
        raw = case['pad'] + case['name'] + ((' ' + case['param']) if case['param'] else '') + case['pad']
        e3 = Extensions()
        e3.parse_string('hello\r\n' + raw)
        got3 = list(e3.extensions.items())
        mp3 = model.ask('wire parseext %s' % (raw.encode().hex() or '-'))
        mgot3 = [] if mp3 == 'nomatch' else [(bytes.fromhex(mp3.split(' ')[0]).decode(), None if mp3.split(' ')[1] == 'none' else bytes.fromhex(mp3.split(' ')[1]).decode())]
        if got3 != mgot3 and mismatch is None:
            mismatch = {'op': 'wire parseext (name as written)', 'impl': got3, 'model': mgot3, 'line': raw}
        want = [(case['name'].upper(), case['param'] or None)]
        if got != want or hdr != 'hello':
            hits.append(hit('c06.extension-line-not-round-tripped', 'an extension does not survive build_string / parse_string', observed=got, expected=want))
    elif w == 'b64':
        d = bytes.fromhex(case['data'])
        enc = base64.b64encode(d)
        me = model.ask('wire b64enc %s' % (d.hex() or '-'))
        me = b'' if me == '-' else bytes.fromhex(me)
        if me != enc:
            mismatch = {'op': 'wire b64enc', 'impl': enc.decode(), 'model': me.decode('latin-1')}
        md = model.ask('wire b64dec %s' % (enc.hex() or '-'))
        md = b'' if md == '-' else (None if md == 'error' else bytes.fromhex(md))
        if md != base64.b64decode(enc) and mismatch is None:
            mismatch = {'op': 'wire b64dec', 'impl': d.hex(), 'model': repr(md)}
    elif w == 'split':
        from slimta.edge.wsgi import WsgiEdge
        raw = case['toks'][0] + ''.join(s + t for s, t in zip(case['seps'], case['toks'][1:]))
        got = WsgiEdge.split_pattern.split(raw)
        ms = model.ask('wire splitrcpts %s' % raw.encode().hex())
        mgot = [('' if x == '-' else bytes.fromhex(x).decode()) for x in ms.split(',')]
        if got != mgot:
            mismatch = {'op': 'wire splitrcpts', 'impl': got, 'model': mgot, 'raw': raw}
        if got != case['toks']:
            hits.append(hit('c06.recipient-header-split-differs', 'base64 tokens are not recovered from the joined header value', observed=got, expected=case['toks']))
    else:
        # MAIL line built by the real client, parsed by the model's server, and by the real regex + find_outside_quotes
        from slimta.smtp.client import Client
        from slimta.smtp.server import find_outside_quotes, from_pattern
        from harness.fakes.sock import ScriptSocket
        sock = ScriptSocket([])
        cl = Client(sock)
        if case['utf8']:
            cl.extensions.add('SMTPUTF8')
        if case['size'] is not None:
            cl.extensions.add('SIZE', '100000')
        cl.extensions.add('PIPELINING')
        try:
            cl.mailfrom(case['addr'], case['size'])
            cl.io.flush_send()
            line = b''.join(sock.sent)
        except UnicodeError:
            line = None
        ascii_ok = all(ord(ch) < 128 for ch in case['addr'])
        if line is not None and not case['utf8'] and not ascii_ok:
            hits.append(hit('c06.address-changed-on-the-wire', 'a non-ASCII address was put on the wire of a session without SMTPUTF8 (it cannot be the same address)',
                            observed=line.decode('latin-1'), expected=case['addr']))
        if line is not None and (case['utf8'] or ascii_ok):
            enc = 'utf-8' if case['utf8'] else 'ascii'
            mb = model.ask('wire mail %s %s' % (case['addr'].encode(enc).hex() or '-', '-' if case['size'] is None else str(case['size'])))
            if bytes.fromhex(mb) + b'\r\n' != line:
                mismatch = {'op': 'wire mail', 'impl': line.decode('latin-1'), 'model': bytes.fromhex(mb).decode('latin-1')}
            arg = line.rstrip(b'\r\n')[5:]
            mt = from_pattern.match(arg)
            real = None
            if mt:
                end = find_outside_quotes(arg, b'>', mt.end(0))
                if end != -1:
                    real = arg[mt.end(0):end]
            pm = model.ask('wire parseaddr from %s' % line.rstrip(b'\r\n').hex())
            maddr = None
            if pm.startswith('addr='):
                x = pm.split(' ')[0][5:]
                maddr = b'' if x == '-' else bytes.fromhex(x)
            if maddr != real and mismatch is None:
                mismatch = {'op': 'wire parseaddr', 'impl': repr(real), 'model': repr(maddr), 'line': line.decode('latin-1')}
    return CaseResult(mismatch, hits, ('unit', repr(sorted(case.items()))), ['unit-' + w])


def run_case(case, model):
    import gevent
    try:
        gevent.get_hub().exception_stream = None
    except Exception:
        pass
    if case['kind'] == 'hop':
        return run_hop(case, model)
    if case['kind'] == 'wsgipair':
        return run_wsgi_pair(case, model)
    if case['kind'] == 'hopbig':
        return run_hop_big(case, model)
    if case['kind'] == 'hopreject':
        return run_hop_reject(case, model)
    return run_unit(case, model)
