"""C11 — a relay reports success only for recipients the next hop accepted.

Implementation: real StaticSmtpRelay / StaticLmtpRelay (SmtpRelayClient / LmtpRelayClient) against a scripted peer on a
socketpair; real PipeRelay (both per-recipient modes, Maildrop/Dovecot helpers) with a stub /bin/sh program; real
HttpRelay against a scripted loopback HTTP peer; MxSmtpRelay with a stub resolver. Each result is classified per
recipient. Model: `relay smtp|pipe|http` of the Lean driver (Model/Relay.lean).
"""
import itertools
import socket as _socket

from harness.core import CaseResult, hit, rng_for

RULE = ('kind=smtp/lmtp: stage x outcome scripts: one of {banner, EHLO (incl. 500 -> HELO), STARTTLS refusal with TLS required, '
        'AUTH, MAIL, each RCPT, DATA, end-of-data (per recipient for LMTP)} gets an outcome in {2xx/3xx, 4xx, 5xx, garbage line, '
        'numeric-but-invalid code, disconnect, stall}, all other stages succeed; plus all RCPT outcome tuples over {250,450,550} for 1..3 '
        'recipients; PIPELINING on/off; connect refused / timeout; 8-bit body without 8BITMIME. kind=pipe: every (exit status, '
        'output shape) in both per-recipient modes and the Maildrop / Dovecot helpers. kind=http: status class x X-Smtp-Reply '
        'header, refused connection, stalled response. kind=mx: every pair of resolver answers (MX: record lists incl. ties and the empty list, no data, not found, error; A likewise) x attempt number x recipient with / without a domain, plus seeded MX lists. distinct = distinct case descriptor; '
        'non-trivial = every case.')
BUDGET_S = {'quick': 170, 'thorough': 1500}
STAGES = ['banner', 'ehlo', 'helo', 'starttls', 'auth', 'mail', 'rcpt0', 'rcpt1', 'data', 'eod', 'eod1', 'rset']
OUTCOMES = ['250', '450', '550', 'bad', 'bad000', 'close', 'stall', '421', '500']


def overlap_ok(case):
    """Cases the campaign runner may run at the same time as another one: those that patch nothing global (the MX cases stub the resolver)."""
    return case.get('kind') == 'smtp'


def cases(tier, seed, phase):
    for lmtp in (False, True):
        for pipelining in (True, False):
            for nr in (1, 2, 3):
                # one deviating stage
                for stage in STAGES:
                    for oc in OUTCOMES:
                        if stage == 'helo' and lmtp:
                            continue
                        if stage == 'data' and oc == '250':
                            continue        # a server that answers DATA with 250 and then treats the message as commands is not a behaviour class of the property
                        if oc == '500' and stage not in ('ehlo', 'helo'):
                            continue
                        if stage.startswith('rcpt') and int(stage[4:]) >= nr:
                            continue
                        if stage == 'eod1' and (not lmtp or nr < 2):
                            continue
                        if oc == 'stall' and tier == 'quick' and (nr != 2 or not pipelining) and stage not in ('eod', 'data'):
                            continue
                        yield {'kind': 'smtp', 'lmtp': lmtp, 'pipelining': pipelining, 'nr': nr, 'dev': {stage: oc}}
                # all RCPT tuples
                for tup in itertools.product(['250', '450', '550'], repeat=nr):
                    for eod in (['250', '550', '450'] if nr <= 2 else ['250']):
                        dev = {'rcpt%d' % i: c for i, c in enumerate(tup)}
                        dev['eod'] = eod
                        if all(c != '250' for c in tup):
                            dev['data'] = '503' if eod == '250' else '554'      # what real servers say to DATA without a valid recipient
                        yield {'kind': 'smtp', 'lmtp': lmtp, 'pipelining': pipelining, 'nr': nr, 'dev': dev}
    # a refused sender AND a refused recipient: without PIPELINING the recipients are never sent, so what the peer would have said to
    # them must not show in the result; with PIPELINING each refused recipient keeps its own class (the model mutant
    # `relay-no-pipelining-sends-rcpt-anyway` survived the campaign until these pairs existed)
    for lmtp in (False, True):
        for pipelining in (True, False):
            for nr in (1, 2):
                for mail in ('450', '550'):
                    for r0 in ('450', '550'):
                        dev = {'mail': mail, 'rcpt0': r0}
                        if pipelining:
                            dev['data'] = '503'
                        yield {'kind': 'smtp', 'lmtp': lmtp, 'pipelining': pipelining, 'nr': nr, 'dev': dev}
    # a failure somewhere in the transaction AND a peer that mishandles the RSET that follows it: what each recipient was told stands,
    # whatever becomes of the RSET (LMTP: the per-recipient end-of-data verdicts; SMTP: the refusals)
    for lmtp in (False, True):
        for pipelining in (True, False):
            for first in ({'eod': '550'}, {'eod': '450'}, {'eod1': '550'}, {'eod': '550', 'eod1': '450'}, {'rcpt0': '550'}, {'rcpt1': '450'}, {'mail': '550'},
                          {'rcpt0': '550', 'eod': '450'}):
                if 'eod1' in first and not lmtp:
                    continue
                for oc in ('close', 'stall', 'bad', '450'):
                    if oc == 'stall' and tier == 'quick' and not (lmtp and pipelining):
                        continue
                    dev = dict(first)
                    dev['rset'] = oc
                    yield {'kind': 'smtp', 'lmtp': lmtp, 'pipelining': pipelining, 'nr': 3 if lmtp else 2, 'dev': dev}
    # the same recipient listed twice (positions 0 and 1 carry one address; the peer answers both alike)
    for lmtp in (False, True):
        for pipelining in (True, False):
            for a, b in itertools.product(['250', '450', '550'], repeat=2):
                dev = {'rcpt0': a, 'rcpt1': a, 'rcpt2': b}
                if a != '250' and b != '250':
                    dev['data'] = '554'
                yield {'kind': 'smtp', 'lmtp': lmtp, 'pipelining': pipelining, 'nr': 3, 'dev': dev, 'dupaddr': True}
    # two messages over one connection (idle_timeout set): what the first one was told must not colour the second one's result
    for lmtp in (False, True):
        for pipelining in (True, False):
            for first in ({'rcpt1': '550'}, {'rcpt0': '450'}, {'mail': '550'}, {'eod': '552'}, {}, {'rcpt0': '550', 'rcpt1': '550', 'data': '503'},
                          {'rcpt0': '550', 'rcpt1': '450', 'data': '554'}):
                for second in ({'mail': 'close'}, {'rcpt0': 'close'}, {'data': 'bad'}, {'eod': 'close'}, {'mail': 'bad'}, {'rcpt1': '450'}, {'eod': '451'}, {}):
                    yield {'kind': 'smtp', 'lmtp': lmtp, 'pipelining': pipelining, 'nr': 2, 'dev': dict(first), 'second': dict(second)}
    for c in ('refused', 'timeout'):
        yield {'kind': 'smtp', 'lmtp': False, 'pipelining': True, 'nr': 1, 'dev': {}, 'connect': c}
    for eight in (True, False):
        for enc in (True, False):
            yield {'kind': 'smtp', 'lmtp': False, 'pipelining': True, 'nr': 2, 'dev': {}, 'body8bit': True, 'eightbit': eight, 'encoder': enc}
    # a non-ASCII address and a server that does not offer SMTPUTF8 (or does)
    for utf8 in (True, False):
        for lm in (False, True):
            for who in ('sender', 'rcpt'):
                yield {'kind': 'smtp', 'lmtp': lm, 'pipelining': True, 'nr': 2, 'dev': {}, 'utf8addr': who, 'smtputf8': utf8}
    for cred in ('235', '535', '454'):
        yield {'kind': 'smtp', 'lmtp': False, 'pipelining': True, 'nr': 1, 'dev': {'auth': cred}, 'credentials': True}
    for tlsreq in ('454', '502', 'close'):
        yield {'kind': 'smtp', 'lmtp': False, 'pipelining': True, 'nr': 1, 'dev': {'starttls': tlsreq}, 'tlsrequired': True}
    # pipe relays
    for relay in ('pipe', 'pipe-single', 'maildrop', 'dovecot'):
        for nr in (1, 2, 3):
            for outs in itertools.product(['exit0', 'fail5', 'fail', 'fail75', 'timeout', 'killed'], repeat=nr):
                if 'timeout' in outs and (tier == 'quick' and nr == 3):
                    continue
                if tier == 'quick' and nr == 3 and outs.count('killed') > 1:
                    continue
                yield {'kind': 'pipe', 'relay': relay, 'outs': list(outs)}
    # http relay
    for status in (200, 204, 400, 404, 500, 503, 302):
        for hdr in (None, '250', '450', '550'):
            yield {'kind': 'http', 'what': 'response', 'status': status, 'hdr': hdr, 'nr': 2}
    yield {'kind': 'http', 'what': 'refused', 'status': 0, 'hdr': None, 'nr': 1}
    yield {'kind': 'http', 'what': 'timeout', 'status': 0, 'hdr': None, 'nr': 1}
    # MX relay: every pair of resolver answers x attempts, then seeded MX lists with ties
    mxs = [[[10, 1], [20, 2]], [[20, 2], [10, 1], [10, 3]], [[5, 1]], [], 'nodata', 'notfound', 'error']
    for mx in mxs:
        for a in (1, 2, 0, 'nodata', 'notfound', 'error'):
            for attempts in (0, 1, 2, 3):
                for domain in ((True, False) if attempts == 0 else (True,)):
                    yield {'kind': 'mx', 'mx': mx, 'a': a, 'attempts': attempts, 'domain': domain}
                    if domain and attempts in (0, 3):
                        # force_mx(): the resolver is not asked at all, whatever it would have said (also in another letter case)
                        yield {'kind': 'mx', 'mx': mx, 'a': a, 'attempts': attempts, 'domain': domain, 'force': 'dest.example' if attempts == 0 else 'DEST.Example'}
                    if domain and attempts <= 1:
                        # the same relay object had a resolver failure just before / gets a second attempt while the lookup is in flight
                        yield {'kind': 'mx', 'mx': mx, 'a': a, 'attempts': attempts, 'domain': domain, 'first_error': True}
                        yield {'kind': 'mx', 'mx': mx, 'a': a, 'attempts': attempts, 'domain': domain, 'concurrent': True}
    for j in range(300 if tier == 'quick' else 5000):
        rng = rng_for(seed, 'c11mx', j)
        mx = [[rng.choice([0, 5, 10, 10, 20, 50]), h + 1] for h in range(rng.randint(1, 6))]
        rng.shuffle(mx)
        yield {'kind': 'mx', 'mx': mx, 'a': rng.choice([1, 'nodata']), 'attempts': rng.randrange(12), 'domain': True,
               'first_error': j % 3 == 1, 'concurrent': j % 3 == 2}
    for c in mxcache_cases(tier, seed):
        yield c


def mxcache_cases(tier, seed):
    """One MxRecord through a history of attempts under a virtual clock: answers with times to live, answers that change, resolver
    errors and 'no usable record' answers in between (Model/Mx.lean: the expiring cache)."""
    for j in range(250 if tier == 'quick' else 5000):
        rng = rng_for(seed, 'c11mc', j)
        steps = []
        for _ in range(rng.randint(2, 6)):
            kind = rng.choice(['mx', 'mx', 'mx', 'a', 'nothing', 'error', 'empty', 'aerror'])
            if kind == 'mx':
                mx = [[rng.choice([0, 5, 10, 10, 20]), h + 1, rng.choice([0, 30, 30, 60])] for h in range(rng.randint(1, 4))]
                rng.shuffle(mx)
                a = rng.choice(['nodata', [30]])
            elif kind == 'a':
                mx, a = rng.choice(['nodata', 'notfound']), [rng.choice([0, 30, 60]) for _ in range(rng.randint(1, 2))]
            elif kind == 'nothing':
                mx, a = rng.choice(['nodata', 'notfound']), rng.choice(['nodata', 'notfound'])
            elif kind == 'empty':
                mx, a = [], [30]
            elif kind == 'aerror':
                mx, a = 'nodata', 'error'
            else:
                mx, a = 'error', [30]
            steps.append({'dt': rng.choice([0, 1, 10, 29, 30, 31, 59, 60, 61, 100]), 'attempts': rng.randrange(6), 'mx': mx, 'a': a})
        yield {'kind': 'mxcache', 'steps': steps}


def run_mxcache(case, model):
    import gevent
    import pycares
    import slimta.relay.smtp.mx as mxmod
    from slimta.relay.smtp.mx import MxSmtpRelay
    from slimta.relay import PermanentRelayError, TransientRelayError
    from slimta.util.dns import DNSError
    from slimta.envelope import Envelope
    saved_query, saved_time = mxmod.DNSResolver.query, mxmod.time

    class Rec(object):
        def __init__(self, host, ttl, pref=None):
            self.host, self.ttl, self.priority = host, ttl, pref
    ERR = {'nodata': pycares.errno.ARES_ENODATA, 'notfound': pycares.errno.ARES_ENOTFOUND, 'error': pycares.errno.ARES_ESERVFAIL}
    cur = {'now': 1000, 'step': None, 'asked': []}

    class Clock(object):
        def time(self):
            return float(cur['now'])

    def fake_query(name, query_type):
        cur['asked'].append(query_type)
        res = gevent.event.AsyncResult()
        ans = cur['step']['mx'] if query_type == 'MX' else cur['step']['a']
        if isinstance(ans, str):
            res.set_exception(DNSError(ERR[ans]))
        elif query_type == 'MX':
            res.set([Rec('mx%d.example' % h, ttl, p) for p, h, ttl in ans])
        else:
            res.set([Rec('10.0.0.%d' % i, ttl) for i, ttl in enumerate(ans)])
        return res
    mxmod.DNSResolver.query = staticmethod(fake_query)
    mxmod.time = Clock()
    out = []
    try:
        relay = MxSmtpRelay(connect_timeout=0.1, command_timeout=0.1)
        chosen = []

        class Static(object):
            def __init__(self, dest):
                self.dest = dest

            def attempt(self, envelope, attempts):
                chosen.append(self.dest)
                return None

            def kill(self):
                pass
        relay.new_static_relay = lambda dest, port: Static(dest)
        env = Envelope('sender@example.com', ['rcpt0@dest.example'])
        env.parse(b'Subject: x\r\n\r\nbody\r\n')
        for st in case['steps']:
            cur['now'] += st['dt']
            cur['step'] = st
            del cur['asked'][:]
            del chosen[:]
            try:
                relay.attempt(env, st['attempts'])
                d = chosen[0] if chosen else '?'
                res = 'deliver:%s' % ('0' if d == 'dest.example' else d[2:].split('.')[0] if d.startswith('mx') else d)
            except PermanentRelayError:
                res = 'perm'
            except TransientRelayError:
                res = 'temp'
            except BaseException as e:
                res = 'other:' + type(e).__name__
            out.append(('asked ' if cur['asked'] else 'cached ') + res)
    finally:
        mxmod.DNSResolver.query, mxmod.time = saved_query, saved_time

    def enc(ans, mx):
        if isinstance(ans, str):
            return ans
        return 'r:' + ','.join(('%d.%d.%d' % tuple(x)) if mx else str(x) for x in ans)
    now = 1000
    words = []
    for st in case['steps']:
        now += st['dt']
        words.append('%d;%d;%s;%s' % (now, st['attempts'], enc(st['mx'], True), enc(st['a'], False)))
    m = model.ask('mx cache ' + '/'.join(words))
    impl = ' / '.join(out)
    mismatch = None if m == impl else {'op': 'mx cache', 'impl': impl, 'model': m, 'steps': '/'.join(words)}
    hits = []
    for st, o in zip(case['steps'], out):
        if 'other' in o:
            hits.append(hit('c11.not-a-relay-result.mx.' + o.split(':')[-1], 'the MX relay ended with something other than a result or a relay error', observed=o))
            break
        if o.startswith('asked') and (st['mx'] == 'error' or (st['mx'] in ('nodata', 'notfound') and st['a'] == 'error')) and not o.endswith('temp'):
            hits.append(hit('c11.mx-resolution.resolver-error-not-transient', 'a resolver error must be a transient failure', observed=o))
            break
    tags = ['mxcache', 'steps=%d' % len(out)] + sorted(set(('step:' + o.split(':')[0]) for o in out))
    return mismatch, hits, tags


def classify(value):
    from slimta.relay import PermanentRelayError, TransientRelayError
    from slimta.smtp.reply import Reply
    if value is None or isinstance(value, Reply):
        return 'ok'
    if isinstance(value, PermanentRelayError):
        return 'perm'
    if isinstance(value, TransientRelayError):
        return 'temp'
    return 'other:' + type(value).__name__


def run_attempt(relay, env, watchdog=4.0):
    """Returns canonical result string: table:a,b / raised:cls / hung."""
    import gevent
    from slimta.relay import PermanentRelayError, TransientRelayError
    import collections.abc as cabc
    box = {}
    try:
        gevent.get_hub().exception_stream = None      # client greenlets that die are part of the scripts
    except Exception:
        pass

    def go():
        try:
            box['ret'] = relay._attempt(env, 0)
        except PermanentRelayError:
            box['exc'] = 'perm'
        except TransientRelayError:
            box['exc'] = 'temp'
        except BaseException as e:
            box['exc'] = 'other:' + type(e).__name__
    g = gevent.spawn(go)
    g.join(watchdog)
    if not g.ready():
        g.kill(block=False)
        return 'hung'
    if 'exc' in box:
        return 'raised:' + box['exc']
    ret = box['ret']
    if isinstance(ret, cabc.Mapping):
        return 'table:' + ','.join(classify(ret.get(r, 'missing')) for r in env.recipients)
    if isinstance(ret, cabc.Sequence) and not isinstance(ret, (str, bytes)):
        return 'table:' + ','.join(classify(v) for v in ret)
    c = classify(ret)
    return 'table:' + ','.join([c] * len(env.recipients)) if c == 'ok' else 'returned-error-object:' + c


def make_env(nr, body8bit=False, utf8addr=None, dupaddr=False):
    from slimta.envelope import Envelope
    env = Envelope('s\xe9nder@example.com' if utf8addr == 'sender' else 'sender@example.com',
                   [('rcpt%d@ex\xe4mple.com' if (utf8addr == 'rcpt' and i == nr - 1) else 'rcpt%d@example.com') % (0 if dupaddr and i == 1 else i)
                    for i in range(nr)])
    body = b'test body\r\n' if not body8bit else 'h\xe9llo\r\n'.encode('utf-8')
    env.parse(b'From: sender@example.com\r\nContent-Type: text/plain; charset="utf-8"\r\nMIME-Version: 1.0\r\n\r\n' + body)
    return env


class Peer(object):
    """Scripted SMTP/LMTP server on one end of a socketpair."""

    def __init__(self, sock, case, shared=None):
        self.sock = sock
        self.case = case
        self.shared = shared if shared is not None else {'n': 0}     # MAIL commands seen by all peers of this case
        self.dev = dict(case['dev'])
        self.cmdlog = []      # (command kind, [what the script answered]) in arrival order: mail / rcpt / data / body / empty / rset
        self.log = []
        self.nrcpt = 0
        self.accepted = 0
        self.ehlos = 0

    def out(self, stage, default):
        return self.dev.get(stage, default)

    def answer(self, stage, default, text='ok'):
        oc = self.out(stage, default)
        self.log.append((stage, oc))
        if oc == 'stall':
            import gevent
            gevent.sleep(30)
            return False
        if oc == 'close':
            self.sock.close()
            return False
        if oc == 'bad':
            self.sock.sendall(b'this is not a reply\r\n')
            return True
        if oc == 'bad000':
            self.sock.sendall(b'000 invalid code\r\n')
            return True
        self.sock.sendall(('%s %s\r\n' % (oc, text)).encode())
        return True

    def run(self):
        try:
            self._run()
        except (OSError, ValueError):
            pass
        finally:
            try:
                self.sock.close()
            except OSError:
                pass

    def _run(self):
        f = self.sock.makefile('rb')
        if not self.answer('banner', '220'):
            return
        while True:
            line = f.readline()
            if not line:
                return
            cmd = line.split(None, 1)[0].upper() if line.strip() else b''
            if cmd in (b'EHLO', b'LHLO'):
                stage = 'ehlo' if self.ehlos == 0 else 'ehlo2'
                self.ehlos += 1
                oc = self.out(stage, '250')
                if oc == '250':
                    exts = []
                    if self.case['pipelining']:
                        exts.append('PIPELINING')
                    if self.case.get('eightbit', True):
                        exts.append('8BITMIME')
                    if self.case.get('smtputf8', False):
                        exts.append('SMTPUTF8')
                    if self.case.get('credentials'):
                        exts.append('AUTH PLAIN')
                    lines = ['peer.example'] + exts
                    self.log.append((stage, '250'))
                    self.sock.sendall(''.join('250%s%s\r\n' % ('-' if i < len(lines) - 1 else ' ', l) for i, l in enumerate(lines)).encode())
                elif not self.answer(stage, '250'):
                    return
            elif cmd == b'HELO':
                if not self.answer('helo', '250'):
                    return
            elif cmd == b'STARTTLS':
                if not self.answer('starttls', '454'):
                    return
            elif cmd == b'AUTH':
                if not self.answer('auth', '235'):
                    return
            elif cmd == b'MAIL':
                self.shared['n'] += 1
                if self.shared['n'] >= 2 and 'second' in self.case:
                    self.dev = dict(self.case['second'])
                self.nrcpt = 0
                self.accepted = 0
                self.cmdlog.append(('mail', [self.out('mail', '250')]))
                if not self.answer('mail', '250'):
                    return
            elif cmd == b'RCPT':
                oc = self.out('rcpt%d' % self.nrcpt, '250')
                self.cmdlog.append(('rcpt', [oc]))
                if oc[:1] == '2':
                    self.accepted += 1
                if not self.answer('rcpt%d' % self.nrcpt, '250'):
                    return
                self.nrcpt += 1
            elif cmd == b'DATA':
                oc = self.out('data', '354')
                self.cmdlog.append(('data', [oc]))
                if not self.answer('data', '354'):
                    return
                if oc == '354':
                    nlines = 0
                    while True:
                        l = f.readline()
                        if not l:
                            return
                        if l in (b'.\r\n', b'.\n'):
                            break
                        nlines += 1
                    if self.case['lmtp']:
                        ans = [self.out('eod' if i == 0 else 'eod%d' % i, '250') for i in range(self.accepted)]
                    else:
                        ans = [self.out('eod', '250')]
                    self.cmdlog.append(('body' if nlines else 'empty', ans))
                    if self.case['lmtp']:
                        for i in range(self.accepted):
                            if not self.answer('eod' if i == 0 else 'eod%d' % i, '250'):
                                return
                    elif not self.answer('eod', '250'):
                        return
            elif cmd == b'RSET':
                self.cmdlog.append(('rset', [self.out('rset', '250')]))
                if not self.answer('rset', '250'):
                    return
            elif cmd == b'QUIT':
                self.sock.sendall(b'221 bye\r\n')
                return
            else:
                self.sock.sendall(b'500 what\r\n')


def smtp_args(case):
    dev = case['dev']

    def oc(stage, default):
        v = dev.get(stage, default)
        return 'bad' if v == 'bad000' else v
    nr = case['nr']
    rcpts = ','.join(oc('rcpt%d' % i, '250') for i in range(nr))
    eodper = ','.join(oc('eod' if i == 0 else 'eod%d' % i, '250') for i in range(nr))
    args = ['banner=' + oc('banner', '220'), 'ehlo=' + oc('ehlo', '250'), 'helo=' + oc('helo', '250'), 'starttls=' + oc('starttls', '454'),
            'ehlo2=' + oc('ehlo2', '250'), 'auth=' + oc('auth', '235'), 'mail=' + oc('mail', '250'), 'rcpts=' + rcpts, 'data=' + oc('data', '354'),
            'eod=' + oc('eod', '250'), 'eodper=' + eodper, 'rset=' + oc('rset', '250'), 'pipelining=%d' % case['pipelining'],
            'eightbit=%d' % case.get('eightbit', True), 'lmtp=%d' % case['lmtp'], 'tlsrequired=%d' % bool(case.get('tlsrequired')),
            'credentials=%d' % bool(case.get('credentials')), 'body8bit=%d' % bool(case.get('body8bit')),
            'encoder=%d' % bool(case.get('encoder')), 'connect=' + case.get('connect', 'ok'),
            'smtputf8=%d' % bool(case.get('smtputf8', False)), 'utf8addr=%d' % bool(case.get('utf8addr'))]
    return args


def model_smtp(case, model):
    return model.ask('relay smtp ' + ' '.join(smtp_args(case)))


def run_smtp(case, model):
    import gevent
    from gevent import socket as gsocket
    from slimta.relay.smtp.static import StaticSmtpRelay, StaticLmtpRelay
    from email.encoders import encode_base64
    peers = []
    shared = {'n': 0}

    def creator(address):
        c = case.get('connect', 'ok')
        if c == 'refused':
            raise _socket.error(111, 'Connection refused')
        if c == 'timeout':
            gevent.sleep(30)
        a, b = gsocket.socketpair()
        p = Peer(b, case, shared)
        peers.append((p, gevent.spawn(p.run)))
        return a
    kw = dict(socket_creator=creator, ehlo_as='relay.example', connect_timeout=0.15, command_timeout=0.2, data_timeout=0.2,
              tls_required=bool(case.get('tlsrequired')))
    if 'second' in case:
        kw['idle_timeout'] = 2.0
        kw['pool_size'] = 1
    if case.get('credentials'):
        kw['credentials'] = ('user', 'pass')
    if case.get('encoder'):
        kw['binary_encoder'] = encode_base64
    cls = StaticLmtpRelay if case['lmtp'] else StaticSmtpRelay
    relay = cls('peer.example', 25, **kw)
    env = make_env(case['nr'], bool(case.get('body8bit')), case.get('utf8addr'), bool(case.get('dupaddr')))
    res = run_attempt(relay, env)
    res2 = None
    if 'second' in case:
        res2 = run_attempt(relay, make_env(case['nr']))
    # the result is set before the client has finished with the connection (RSET after a failure, QUIT): let it
    last, quiet = None, 0
    for _ in range(80):
        gevent.sleep(0.004)
        cur = sum(len(p.cmdlog) + len(p.log) for p, _ in peers)
        quiet = quiet + 1 if cur == last else 0
        last = cur
        if quiet >= 4:
            break
    for p, g in peers:
        g.kill(block=False)
    for c in list(relay.pool):
        c.kill(block=False)
    m = model_smtp(case, model)
    mismatch = None if m == res else {'op': 'relay smtp', 'impl': res, 'model': m, 'peer_log': peers[0][0].log if peers else None}
    hits = smtp_monitor(case, case['dev'], res)
    tags = ['lmtp' if case['lmtp'] else 'smtp', 'pipelining' if case['pipelining'] else 'no-pipelining', 'nr=%d' % case['nr'], res.split(':')[0]]
    if case.get('dupaddr'):
        tags.append('duplicate-recipient')
    # the commands each connection saw vs the command-level model (Model/RelaySession.lean), fed with the answers the script gave
    if mismatch is None and not case.get('utf8addr') and not case.get('body8bit'):
        for p, _ in peers:
            if not p.cmdlog:
                continue
            seen = [c for c, _ in p.cmdlog]
            answers = []
            broken = False
            for c, outs in p.cmdlog:
                for o in outs:
                    ok = o.isdigit() and o != '000'
                    answers.append(o if ok else 'x')
                    broken = broken or not ok
            nmsg = seen.count('mail')
            mc = model.ask('relaysession session %d %d %s %s' % (case['lmtp'], case['pipelining'], ','.join([str(case['nr'])] * nmsg), ','.join(answers) or '-'))
            want = [] if mc == '-' else mc.split(',')
            same = (seen == want[:len(seen)]) if broken else (seen == want)
            if not same:
                mismatch = {'op': 'relaysession session', 'impl': seen, 'model': want, 'answers': answers}
                break
            tags.append('commands-compared')
    if res2 is not None:
        tags.append('second-message')
        # the second message: over the same connection when the first one left it usable (then no banner / EHLO stage), over a
        # new one otherwise; either way its result is what its own script says
        case2 = dict(case, dev=dict(case['second']))
        case2.pop('second')
        m2 = model_smtp(case2, model)
        if mismatch is None and m2 != res2:
            mismatch = {'op': 'relay smtp (second message)', 'impl': res2, 'model': m2, 'first': res,
                        'peer_log': [x for p, _ in peers for x in p.log][-12:]}
        hits += smtp_monitor(case2, case2['dev'], res2)
    return mismatch, hits, tags


def smtp_monitor(case, dev, res):
    hits = []
    if res == 'hung':
        hits.append(hit('c11.attempt-never-ends.smtp', 'the attempt did not end with a result or a relay error', observed=dev))
    elif 'other' in res or res.startswith('returned-error-object'):
        hits.append(hit('c11.not-a-relay-result.smtp.' + res.split(':')[-1], 'the attempt ended with something other than a result or a relay error',
                        observed=res))
    else:
        nr = case['nr']
        rc = [dev.get('rcpt%d' % i, '250') for i in range(nr)]
        if res.startswith('table:'):
            vals = res[6:].split(',')
            for i, v in enumerate(vals):
                eod = dev.get(('eod' if i == 0 else 'eod%d' % i) if case['lmtp'] else 'eod', '250')
                if case['lmtp']:
                    acc_before = sum(1 for x in rc[:i] if x[:1] == '2')
                    eod = dev.get('eod' if acc_before == 0 else 'eod%d' % acc_before, '250')
                if v == 'ok' and not (rc[i][:1] == '2' and dev.get('data', '354') == '354' and eod[:1] == '2' and dev.get('mail', '250')[:1] == '2'):
                    hits.append(hit('c11.delivered-without-acceptance.smtp', 'a recipient is reported delivered although the next hop did not accept it',
                                    observed={'recipient': i, 'result': res}, expected=dev))
                if rc[i][:1] == '5' and v != 'perm':
                    hits.append(hit('c11.5xx-not-permanent.smtp', 'a recipient refused with 5xx is not reported as a permanent failure', observed=res, expected=dev))
                if rc[i][:1] == '4' and v != 'temp':
                    hits.append(hit('c11.4xx-not-transient.smtp', 'a recipient refused with 4xx is not reported as a transient failure', observed=res, expected=dev))
        elif res == 'raised:perm':
            # somebody must have said 5xx about the whole message (or every recipient); a recipient with its own 4xx must not be failed for good
            # (only when the sender was accepted: what a server says to a pipelined RCPT after it refused MAIL is no verdict about the
            # recipient — usually 503 — and _fail raises the MAIL failure for everybody when those replies are all of one kind;
            # Corrections, fourth session)
            rcpt_replies_seen = all(dev.get(k, '250')[:1] in '2' for k in ('banner', 'ehlo', 'auth')) and dev.get('mail', '250')[:1] == '2'
            if rcpt_replies_seen and any(x[:1] == '4' for x in rc):
                hits.append(hit('c11.4xx-recipient-failed-permanently.smtp', 'the whole message failed permanently although a recipient was refused only transiently',
                                observed=res, expected=dev))
            if not any(v[:1] == '5' for v in dev.values()) and not (case.get('body8bit') and not case.get('eightbit', True)) \
                    and not (case.get('utf8addr') and not case.get('smtputf8')):
                hits.append(hit('c11.permanent-without-5xx.smtp', 'permanent failure although no 5xx was given', observed=res, expected=dev))
        elif res == 'raised:temp':
            decisive = [v for k, v in dev.items() if v[:1] == '5' and k in ('banner', 'mail', 'data', 'eod', 'auth')]
            if decisive and not case['lmtp'] and all(v[:1] in '235' for v in dev.values()) and dev.get('ehlo', '250') != '500':
                hits.append(hit('c11.5xx-not-permanent.smtp', 'a 5xx outcome for the whole message is reported as transient', observed=res, expected=dev))
            # whatever becomes of the RSET that follows a failed transaction, the verdicts given before it stand: when every reply up to
            # and including those to the message data was a well-formed 2xx / 3xx / 5xx, nobody was told "try later"
            before_rset = dict((k, v) for k, v in dev.items() if k != 'rset')
            if 'rset' in dev and not case.get('connect') and all(v.isdigit() and v[:1] in '235' and v != '000' for v in before_rset.values()) \
                    and dev.get('ehlo', '250') != '500':
                hits.append(hit('c11.transient-although-nobody-said-4xx.smtp', 'every reply up to the end of the message data was 2xx / 3xx / 5xx, the RSET after the '
                                'failed transaction went wrong, and the whole message is reported as a transient failure', observed=res, expected=dev))
    return hits


def run_pipe(case, model):
    import os
    import stat
    import tempfile
    from slimta.relay.pipe import PipeRelay, MaildropRelay, DovecotLdaRelay
    d = tempfile.mkdtemp(prefix='verif_c11_')
    try:
        prog = os.path.join(d, 'prog.sh')
        # the stub decides by the recipient index it finds in its argument
        with open(prog, 'w') as f:
            f.write('#!/bin/sh\ncat > /dev/null\ncase "$1" in\n')
            for i, o in enumerate(case['outs']):
                body = {'exit0': 'exit 0', 'fail5': 'echo "5.1.1 no such user"; exit 1', 'fail': 'echo "maildrop: try later" >&2; exit 1',
                        'fail75': 'echo "maildrop: temp"; exit 75', 'timeout': 'sleep 9; exit 0',
                        'killed': 'kill -9 $$; sleep 5'}[o]          # dies from a signal: Popen.returncode is negative
                f.write('  *rcpt%d@*) %s ;;\n' % (i, body))
            f.write('  *) exit 0 ;;\nesac\n')
        os.chmod(prog, os.stat(prog).st_mode | stat.S_IEXEC)
        relay_kind = case['relay']
        # the stub programs answer at once; the relay's timeout only has to tell them from the one that sleeps. On a busy machine
        # starting a shell takes its time: a generous limit where no program of the case sleeps, a moderate one where one does
        pipe_timeout = 1.5 if 'timeout' in case['outs'] else 6.0
        if relay_kind in ('pipe', 'pipe-single'):
            relay = PipeRelay([prog, '{recipient}'], timeout=pipe_timeout)
            relay.per_recipient = relay_kind == 'pipe'
        elif relay_kind == 'maildrop':
            relay = MaildropRelay(path=prog, timeout=pipe_timeout, extra_args=['{recipient}'])
            relay.args = [prog, '{recipient}']
        else:
            relay = DovecotLdaRelay(path=prog, timeout=pipe_timeout)
            relay.args = [prog, '{recipient}']
        env = make_env(len(case['outs']))
        res = run_attempt(relay, env, watchdog=20.0)
    finally:
        import shutil
        shutil.rmtree(d, ignore_errors=True)
    per = relay.per_recipient
    outs = case['outs']
    if relay_kind in ('maildrop', 'dovecot'):
        mo = [{'fail75': 'fail', 'fail5': 'fail5', 'fail': 'fail5', 'killed': 'fail5'}.get(o, o) for o in outs]      # exit status decides: 75 = temp, else perm
    else:
        mo = [{'fail75': 'fail'}.get(o, o) for o in outs]             # 'killed' is the model's own outcome: transient
    if 'timeout' in mo and per:
        # one Timeout spans the whole loop: everything from the slow recipient on is transient
        k = mo.index('timeout')
        mo = mo[:k] + ['timeout'] * (len(mo) - k)
    m = model.ask('relay pipe %d %s' % (1 if per else 0, ','.join(mo)))
    mismatch = None if m == res else {'op': 'relay pipe', 'impl': res, 'model': m}
    hits = []
    if res == 'hung':
        hits.append(hit('c11.attempt-never-ends.pipe', 'the pipe attempt did not end', observed=case))
    elif 'other' in res or res.startswith('returned-error-object'):
        hits.append(hit('c11.not-a-relay-result.%s.%s' % (relay_kind, res.split(':')[-1] if 'other' in res else 'error-object-returned'),
                        'the pipe relay returned / raised something that is neither a result nor a relay error', observed=res, expected=case['outs']))
    elif res.startswith('table:'):
        vals = res[6:].split(',')
        for i, v in enumerate(vals):
            decisive = outs[i] if per else outs[0]
            if v == 'ok' and decisive != 'exit0':
                hits.append(hit('c11.delivered-without-acceptance.' + relay_kind, 'delivered although the program failed', observed=res, expected=outs))
    return mismatch, hits, [relay_kind, res.split(':')[0]]


def run_http(case, model):
    import gevent
    from gevent.server import StreamServer
    from slimta.relay.http import HttpRelay

    def handler(sock, addr):
        try:
            f = sock.makefile('rb')
            length = 0
            while True:
                l = f.readline()
                if not l or l in (b'\r\n', b'\n'):
                    break
                if l.lower().startswith(b'content-length:'):
                    length = int(l.split(b':')[1])
            f.read(length)
            if case['what'] == 'timeout':
                gevent.sleep(30)
                return
            hdr = ''
            if case['hdr']:
                hdr = 'X-Smtp-Reply: %s; message="%s.0.0 text"\r\n' % (case['hdr'], case['hdr'][0])
            sock.sendall(('HTTP/1.1 %d Status\r\nContent-Length: 0\r\n%sConnection: close\r\n\r\n' % (case['status'], hdr)).encode())
        except OSError:
            pass
        finally:
            sock.close()
    srv = StreamServer(('127.0.0.1', 0), handler)
    srv.start()
    port = srv.socket.getsockname()[1]
    if case['what'] == 'refused':
        srv.stop()
    relay = HttpRelay('http://127.0.0.1:%d/deliver' % port, timeout=0.4)
    env = make_env(case['nr'])
    res = run_attempt(relay, env, watchdog=4.0)
    try:
        srv.stop()
        for c in list(relay.pool):
            c.kill(block=False)
    except Exception:
        pass
    m = model.ask('relay http %d %s %d %s' % (case['nr'], case['what'], case['status'], case['hdr'] or '-'))
    mismatch = None if m == res else {'op': 'relay http', 'impl': res, 'model': m}
    hits = []
    if res == 'hung':
        hits.append(hit('c11.attempt-never-ends.http.' + case['what'], 'the HTTP relay attempt never ended', observed=case))
    elif 'other' in res or res.startswith('returned-error-object'):
        hits.append(hit('c11.not-a-relay-result.http.' + res.split(':')[-1], 'neither a result nor a relay error', observed=res))
    elif res.startswith('table:') and 'ok' in res and not (case['what'] == 'response' and case['status'] // 100 == 2):
        hits.append(hit('c11.delivered-without-acceptance.http', 'delivered although the HTTP status was not 2xx', observed=res, expected=case))
    return mismatch, hits, ['http-' + case['what'], res.split(':')[0]]


def run_mx(case, model):
    import gevent
    import gevent.event
    import pycares
    from slimta.envelope import Envelope
    from slimta.relay.smtp import mx as mxmod
    from slimta.relay.smtp.mx import MxSmtpRelay
    from slimta.util.dns import DNSError
    saved = mxmod.DNSResolver.query

    class Rec(object):
        def __init__(self, host, pref=None):
            self.host = host
            self.ttl = 60
            self.priority = pref
    ERR = {'nodata': pycares.errno.ARES_ENODATA, 'notfound': pycares.errno.ARES_ENOTFOUND, 'error': pycares.errno.ARES_ESERVFAIL}

    phase = {'fail_first': bool(case.get('first_error'))}

    def fake_query(name, query_type):
        res = gevent.event.AsyncResult()
        ans = case['mx'] if query_type == 'MX' else case['a']
        if phase['fail_first']:
            ans = 'error'          # the resolver is down during the first attempt
        if isinstance(ans, str):
            val, exc = None, DNSError(ERR[ans])
        elif query_type == 'MX':
            val, exc = [Rec('mx%d.example' % h, p) for p, h in ans], None
        else:
            val, exc = [Rec('10.0.0.%d' % i) for i in range(ans)], None
        if case.get('concurrent'):
            # the answer takes a moment: another attempt for the same domain arrives meanwhile
            gevent.spawn_later(0.01, (lambda: res.set_exception(exc)) if exc is not None else (lambda: res.set(val)))
        elif exc is not None:
            res.set_exception(exc)
        else:
            res.set(val)
        return res
    mxmod.DNSResolver.query = staticmethod(fake_query)
    chosen = []
    asked = []
    real_fake_query = fake_query

    def counting_query(name, query_type):
        asked.append((name, query_type))
        return real_fake_query(name, query_type)
    mxmod.DNSResolver.query = staticmethod(counting_query)
    try:
        relay = MxSmtpRelay(connect_timeout=0.1, command_timeout=0.1)
        if case.get('force'):
            relay.force_mx(case['force'], 'forced.example', 2525)

        class Static(object):
            def __init__(self, dest):
                self.dest = dest

            def attempt(self, envelope, attempts):
                chosen.append(self.dest)
                return None

            def kill(self):
                pass
        relay.new_static_relay = lambda dest, port: Static(dest)
        env = Envelope('sender@example.com', ['rcpt0@dest.example' if case['domain'] else 'postmaster'])
        env.parse(b'Subject: x\r\n\r\nbody\r\n')
        box = {}

        def go(key='r'):
            from slimta.relay import PermanentRelayError, TransientRelayError
            try:
                relay.attempt(env, case['attempts'])
                box[key] = 'ok'
            except PermanentRelayError:
                box[key] = 'perm'
            except TransientRelayError:
                box[key] = 'temp'
            except BaseException as e:
                box[key] = 'other:' + type(e).__name__
        first = None
        if phase['fail_first'] and case['domain']:
            g0 = gevent.spawn(go, 'first')
            g0.join(3)
            first = box.get('first', 'hung')
        phase['fail_first'] = False
        del chosen[:]
        g = gevent.spawn(go)
        g2 = gevent.spawn(go, 'r2') if case.get('concurrent') else None
        g.join(3)
        res = box.get('r', 'hung')
        res2 = None
        if g2 is not None:
            g2.join(3)
            res2 = box.get('r2', 'hung')
    finally:
        mxmod.DNSResolver.query = saved
    if case.get('force'):
        hits = []
        if res != 'ok' or chosen != ['forced.example'] or asked:
            hits.append(hit('c11.mx-forced-host-not-used', 'a domain with a forced destination was not delivered to that destination without asking the resolver',
                            observed={'result': res, 'destinations': chosen, 'resolver queries': asked[:3]}))
        return None, hits, ['mx', 'forced']
    if res == 'ok':
        d = chosen[0] if chosen else '?'
        res = 'deliver:%s' % ('0' if d == 'dest.example' else d[2:].split('.')[0] if d.startswith('mx') else d)
    mxs = case['mx'] if isinstance(case['mx'], str) else 'r:' + ','.join('%d.%d' % (p, h) for p, h in case['mx'])
    as_ = case['a'] if isinstance(case['a'], str) else 'r:%d' % case['a']
    m = model.ask('mx route %d %s %s %d' % (1 if case['domain'] else 0, mxs, as_, case['attempts']))
    mismatch = None if m == res else {'op': 'mx route', 'impl': res, 'model': m}
    hits = []
    if first is not None and first != 'temp':
        hits.append(hit('c11.mx-resolver-error-not-transient', 'a resolver error was not reported as a transient failure', observed=first))
    if res2 is not None:
        # the second of two simultaneous attempts for the domain: same answer from the resolver, same kind of result
        r2 = 'deliver' if res2 == 'ok' else res2
        if r2 != res.split(':')[0] and mismatch is None:
            mismatch = {'op': 'mx route (second of two simultaneous attempts)', 'impl': res2, 'model': m, 'first': res}
    unroutable = case['mx'] in ('nodata', 'notfound') and case['a'] in ('nodata', 'notfound')
    dnserr = case['mx'] == 'error' or (case['mx'] in ('nodata', 'notfound') and case['a'] == 'error')
    if res.startswith('other') or res == 'hung':
        hits.append(hit('c11.not-a-relay-result.mx.' + res.split(':')[-1], 'the MX relay ended with something other than a result or a relay error', observed=res))
    elif case['domain'] and unroutable and res != 'perm':
        hits.append(hit('c11.mx-resolution.unroutable-not-permanent', 'a domain with neither MX nor A records must fail permanently', observed=res))
    elif case['domain'] and dnserr and res != 'temp':
        hits.append(hit('c11.mx-resolution.resolver-error-not-transient', 'a resolver error must be a transient failure', observed=res))
    elif case['domain'] and isinstance(case['mx'], list) and case['mx']:
        best = min(p for p, h in case['mx'])
        if case['attempts'] == 0 and res.startswith('deliver:') and int(res[8:]) not in [h for p, h in case['mx'] if p == best]:
            hits.append(hit('c11.mx-resolution.first-attempt-not-best', 'the first attempt did not go to an MX host of the best priority', observed=res, expected=case['mx']))
    return mismatch, hits, ['mx', res.split(':')[0]]


def run_case(case, model):
    fn = {'smtp': run_smtp, 'pipe': run_pipe, 'http': run_http, 'mx': run_mx, 'mxcache': run_mxcache}[case['kind']]
    mismatch, hits, tags = fn(case, model)
    key = tuple(sorted((k, str(v)) for k, v in case.items()))
    return CaseResult(mismatch, hits, key, [case['kind']] + tags)
