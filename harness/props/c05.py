"""C05 — message content crosses DATA framing unchanged under any segmentation.

Implementation: real DataSender -> bytes -> real IO over a scripted socket -> real DataReader.
Model: `data send`, `data run` of the Lean driver (Model/Data.lean).
"""
import itertools

from harness.core import CaseResult, hit, hx, hxl, rng_for, unhx
from harness.fakes.sock import ScriptSocket, WouldBlock, cut

RULE = ('kind=msg: message -> DataSender(parts) -> stream+trailing bytes -> (recv_buffer prefix, recv() segments) -> '
        'DataReader; exhaustive over messages in {".",CR,LF,"a"}^<=N x part splits at line boundaries x trailing bytes '
        'x segmentations, plus seeded random 8-bit messages straddling the 4096-byte recv size; kind=raw: arbitrary '
        'streams containing an end-of-data line, each segmentation compared with one-burst delivery. distinct = '
        'distinct (message|stream, parts, trailing, segmentation); non-trivial = message or stream non-empty.')

ALPHA = [b'.', b'\r', b'\n', b'a']
TRAILS = [b'', b'.\r\n', b'QUIT\r\n', b'\r\n.\r\n', b'.x\r\n']
BUDGET_S = {'quick': 150, 'thorough': 900}


def normalize(msg):
    return msg if (msg == b'' or msg.endswith(b'\r\n')) else msg + b'\r\n'


def line_boundaries(msg):
    return [i + 1 for i, b in enumerate(msg[:-1]) if b == 10]


def split_at(msg, points):
    out, last = [], 0
    for p in points:
        out.append(msg[last:p])
        last = p
    out.append(msg[last:])
    return out


def seg_variants(rng, n, small):
    """(buf0len, cuts) choices for a stream of n bytes."""
    yield 0, list(range(1, n))                       # byte by byte
    yield 0, []                                      # one burst
    k = rng.randint(0, n)
    yield k, []                                      # a recv_buffer prefix, then one burst
    for _ in range(2 if small else 1):
        b0 = rng.choice([0, 0, rng.randint(0, n)])
        cuts = sorted(rng.sample(range(1, n), rng.randint(0, min(4, n - 1)))) if n > 1 else []
        yield b0, cuts


def cases(tier, seed, phase):
    maxlen = 7 if tier == 'quick' else 8
    idx = 0
    for n in range(0, maxlen + 1):
        for tup in itertools.product(ALPHA, repeat=n):
            msg = b''.join(tup)
            idx += 1
            rng = rng_for(seed, 'c05', idx)
            lb = line_boundaries(msg)
            splits = [[]]
            if lb:
                splits.append(lb)
                if len(lb) > 1:
                    splits.append(sorted(rng.sample(lb, rng.randint(1, len(lb) - 1))))
            # empty parts in the middle are legal too
            trails = TRAILS if n <= 5 else [TRAILS[idx % 5]]
            for sp in splits:
                parts = split_at(msg, sp)
                if n <= 4 and sp:
                    parts = parts[:1] + [b''] + parts[1:]
                for trail in trails:
                    total = None
                    for b0, cuts in seg_variants(rng, 64, n <= 5):
                        yield {'kind': 'msg', 'parts': [p.hex() for p in parts], 'trail': trail.hex(),
                               'buf0frac': b0, 'cutfracs': cuts}
    # raw streams: anything, then something that certainly ends the data
    rawlen = 5 if tier == 'quick' else 6
    ralpha = ALPHA + [b' ']
    for n in range(0, rawlen + 1):
        for tup in itertools.product(ralpha, repeat=n):
            idx += 1
            rng = rng_for(seed, 'c05raw', idx)
            stream = b''.join(tup) + b'\r\n.\r\n' + rng.choice([b'', b'NOOP\r\n', b'.\r\n', b'..a\r\n.\r\n'])
            for b0, cuts in list(seg_variants(rng, 64, False))[:4]:
                yield {'kind': 'raw', 'stream': stream.hex(), 'buf0frac': b0, 'cutfracs': cuts}
    # long lines: a line of L bytes (around the powers of two a reader might buffer by) followed by a dot-leading tail, cut
    # exactly at, just before and just after L, in recv-sized bursts, and with the long line not at the start
    lens = [1023, 1024, 1025, 4095, 4096, 4097, 8191, 8192, 8193, 12288, 16384] + ([2048, 32768, 65536, 65537] if tier == 'thorough' else [])
    tails = [b'.tail\r\nmore\r\n', b'.\r\nMAIL FROM:<evil@x>\r\n', b'\r\n.x\r\n', b'..\r\n', b'.', b'\r', b'\n.\r\nx']
    for L in lens:
        for ti, tail in enumerate(tails):
            for pre in (b'', b'x\r\n', b'.\r\n'):
                idx += 1
                msg = pre + b'a' * L + tail
                off = len(pre) + (1 if pre.startswith(b'.') else 0) + L      # wire offset of the end of the long run (dot-stuffing of `pre`)
                parts = [msg] if (L + ti) % 2 else [pre, b'a' * L + tail] if pre else [msg]
                for cuts in ([], [off], [off - 1], [off + 1], [off, off + 1], [4096, 8192, 12288], [off - 4096, off] if off > 4096 else [off]):
                    yield {'kind': 'msg', 'parts': [p.hex() for p in parts], 'trail': [b'', b'NOOP\r\n'][idx % 2].hex(),
                           'buf0frac': 0, 'cutfracs': [], 'abscuts': cuts, 'long': True}
    # random 8-bit messages, sizes around the recv size
    nrand = 1500 if tier == 'quick' else 40000
    for j in range(nrand):
        for v in range(3):
            yield (lambda j=j, v=v: rand_case(seed, j, v))
    # size-limited reads: limits just below / at / above the wire size (negative = relative to it)
    for j in range(nrand):
        for v in range(3):
            def mk(j=j, v=v):
                c = rand_case(seed, 100000 + j, v)
                c['limit'] = rng_for(seed, 'c05lim', j).choice([-3, -2, -1, 0, 1, 7, 1, 20, 5000])
                return c
            yield mk


def rand_case(seed, j, v):
    rng = rng_for(seed, 'c05rand', j)
    size = rng.choice([rng.randint(0, 40), rng.randint(0, 300), rng.randint(4000, 4200), rng.randint(8100, 8300),
                       rng.randint(0, 20000)])
    pool = [b'.', b'\r\n', b'\n', b'\r', b'\r\n.', b'\n.', b'..', bytes([rng.randrange(256)]), b'abc', b'\x00', b'\xff']
    out = []
    total = 0
    while total < size:
        out.append(rng.choice(pool))
        total += len(out[-1])
    msg = b''.join(out)[:size]
    lb = line_boundaries(msg)
    sp = sorted(rng.sample(lb, rng.randint(0, min(3, len(lb))))) if lb else []
    parts = split_at(msg, sp)
    trail = rng.choice(TRAILS + [b'MAIL FROM:<a@b>\r\n'])
    b0, cuts = list(seg_variants(rng, 64, False))[1:][v]
    return {'kind': 'msg', 'parts': [p.hex() for p in parts], 'trail': trail.hex(), 'buf0frac': b0, 'cutfracs': cuts}


def resolve_seg(stream, case):
    """buf0frac / cutfracs are expressed on a 0..64 scale unless the stream is short (then they are offsets)."""
    n = len(stream)
    if 'abscuts' in case:
        return b'', cut(stream, [c for c in case['abscuts'] if 0 < c < n])
    if n <= 64:
        b0 = min(case['buf0frac'], n)
        cuts = [c for c in case['cutfracs'] if c < n]
    else:
        b0 = case['buf0frac'] * n // 64
        cuts = [c * n // 64 for c in case['cutfracs']]
    rest = stream[b0:]
    segs = cut(rest, [c - b0 for c in cuts if c > b0])
    return stream[:b0], segs


def impl_read(buf0, segs, max_size=None):
    from slimta.smtp.io import IO
    from slimta.smtp.datareader import DataReader
    from slimta.smtp import ConnectionLost, MessageTooBig
    sock = ScriptSocket(segs)
    io = IO(sock)
    io.recv_buffer = buf0
    rd = DataReader(io, max_size)
    try:
        data = rd.recv()
    except WouldBlock:
        return ('err', 'wouldBlock'), sock
    except ConnectionLost:
        return ('err', 'connectionLost'), sock
    except MessageTooBig:
        return ('toobig', io.recv_buffer, sock.unread()), sock
    return ('ok', data, io.recv_buffer, sock.unread()), sock


def run_case(case, model):
    from slimta.smtp.datasender import DataSender
    from slimta.smtp.io import IO
    hits = []
    mismatch = None
    if case['kind'] == 'msg':
        parts = [bytes.fromhex(p) for p in case['parts']]
        trail = bytes.fromhex(case['trail'])
        msg = b''.join(parts)
        sio = IO(ScriptSocket([]))
        DataSender(*parts).send(sio)
        wire = sio.send_buffer.getvalue()
        mwire = unhx(model.ask('data send ' + hxl(parts)))
        if mwire != wire:
            mismatch = {'op': 'data send', 'impl': wire.hex(), 'model': mwire.hex()}
        stream = wire + trail
    else:
        stream = bytes.fromhex(case['stream'])
        msg = None
    buf0, segs = resolve_seg(stream, case)
    limit = case.get('limit')
    if limit is not None and limit < 0:
        limit = max(1, len(stream) - len(bytes.fromhex(case.get('trail', ''))) + limit + 2)
    res, sock = impl_read(buf0, segs, limit)
    # the model sees the pieces recv() actually returned (cut to 4096) plus what was never read
    pieces = list(sock.recvd) + list(sock.segments)
    mres = model.ask('data run %s %s %s' % ('-' if limit is None else limit, hx(buf0), hxl(pieces)))
    if res[0] == 'ok':
        canon = 'ok %s %s %s' % (hx(res[1]), hx(res[2]), hx(res[3]))
    elif res[0] == 'toobig':
        canon = 'toobig %s %s' % (hx(res[1]), hx(res[2]))
    else:
        canon = 'err ' + res[1]
    if canon != mres and mismatch is None:
        mismatch = {'op': 'data run', 'impl': canon, 'model': mres, 'buf0': buf0.hex(), 'pieces': [p.hex() for p in pieces]}
    # ---- property monitor (implementation observables only)
    if limit is not None:
        ref, _ = impl_read(b'', [stream] if stream else [], limit)
        a = (res[0], res[1], res[2] + res[3]) if res[0] == 'ok' else (res[0], res[1] + res[2]) if res[0] == 'toobig' else res
        b = (ref[0], ref[1], ref[2] + ref[3]) if ref[0] == 'ok' else (ref[0], ref[1] + ref[2]) if ref[0] == 'toobig' else ref
        if a != b:
            hits.append(hit('c05.size-limit-segmentation-dependent', 'with a size limit the outcome depends on how the stream was cut',
                            observed=[str(x) for x in a], expected=[str(x) for x in b]))
        elif res[0] == 'toobig' and case['kind'] == 'msg' and res[1] + res[2] != trail:
            hits.append(hit('c05.oversized-message-left-in-stream', 'an oversized message was not consumed up to its end-of-data line',
                            observed=(res[1] + res[2]).hex(), expected=trail.hex()))
    elif case['kind'] == 'msg':
        want = normalize(msg)
        if res[0] != 'ok':
            hits.append(hit('c05.reader-fails-on-sender-output', 'DataReader did not return on DataSender output',
                            observed=canon, expected=want.hex()))
        else:
            if res[1] != want:
                hits.append(hit('c05.roundtrip-data', 'reader result differs from the message',
                                observed=res[1].hex(), expected=want.hex()))
            if res[2] + res[3] != trail:
                hits.append(hit('c05.roundtrip-consumption', 'bytes after the end-of-data line were not left untouched',
                                observed=(res[2] + res[3]).hex(), expected=trail.hex()))
    else:
        ref, _ = impl_read(b'', [stream] if stream else [])
        a = (res[1], res[2] + res[3]) if res[0] == 'ok' else res
        b = (ref[1], ref[2] + ref[3]) if ref[0] == 'ok' else ref
        if a != b:
            hits.append(hit('c05.segmentation-dependent', 'reader result depends on how the stream was cut',
                            observed=[x.hex() if isinstance(x, bytes) else x for x in a],
                            expected=[x.hex() if isinstance(x, bytes) else x for x in b]))
    n = len(stream)
    tags = [case['kind'] + ('+limit' if limit is not None else ''), 'len<=8' if n <= 8 else 'len<=16' if n <= 16 else 'len<=4096' if n <= 4096 else 'len>4096',
            'segs=%s' % ('0' if not segs else '1' if len(segs) == 1 else '2-4' if len(segs) <= 4 else '5+'),
            'buf0' if buf0 else 'nobuf0']
    if msg is not None and len(case['parts']) > 1:
        tags.append('multipart')
    if case.get('long'):
        tags.append('long-line')
    key = (case['kind'], case.get('stream') or tuple(case['parts']), case.get('trail'), case['buf0frac'],
           tuple(case['cutfracs']), tuple(case.get('abscuts', ()))) if n else None
    return CaseResult(mismatch, hits, key, tags)
