"""Timeout-scope table of the code, extracted from the current source with `ast` on every run (C14).

For every call that can block on the peer (reads, handshakes, connects, closes, the client's command methods, the
subprocess / HTTP exchange) the extractor reports the timeout attribute of the innermost enclosing scope:

    with Timeout(self.X): ...                      ->  X
    t = Timeout(self.X); t.start(); try: ... finally: t.cancel()   ->  X   (the `try` body)
    anything else                                  ->  unscoped

The result, mapped to the stages of Model/Timeouts.lean, is compared with the model's own table (`timeouts table`): the
theorems are about that table, so a blocking step that leaves its scope, or sits in another one, breaks the correspondence.
"""
import ast
import os

REPO = os.environ.get('VERIF_REPO', '/repo')


def _timeout_attr(call):
    """Timeout(self.X) / gevent.Timeout(self.a.b) -> 'X' / 'a.b'; None if `call` is not a Timeout(...) call."""
    if not isinstance(call, ast.Call):
        return None
    f = call.func
    name = f.id if isinstance(f, ast.Name) else f.attr if isinstance(f, ast.Attribute) else None
    if name != 'Timeout' or not call.args:
        return None
    a = call.args[0]
    parts = []
    while isinstance(a, ast.Attribute):
        parts.append(a.attr)
        a = a.value
    if isinstance(a, ast.Name) and a.id == 'self' and parts:
        return '.'.join(reversed(parts))
    return '?'


def _dotted(node):
    parts = []
    while isinstance(node, ast.Attribute):
        parts.append(node.attr)
        node = node.value
    if isinstance(node, ast.Name):
        parts.append(node.id)
    else:
        parts.append('?')
    return '.'.join(reversed(parts))


class _Walker(object):
    def __init__(self, is_blocking):
        self.is_blocking = is_blocking
        self.found = []          # (function, dotted call, scope)

    def walk_function(self, fn):
        self.fn = fn.name
        self.started = {}        # variable name -> timeout attribute (assigned from Timeout(...))
        self._stmts(fn.body, None)

    def _stmts(self, stmts, scope):
        for st in stmts:
            self._stmt(st, scope)

    def _stmt(self, st, scope):
        if isinstance(st, ast.With):
            inner = scope
            for item in st.items:
                t = _timeout_attr(item.context_expr)
                if t is not None:
                    inner = t
                else:
                    self._expr(item.context_expr, scope)
            self._stmts(st.body, inner)
            return
        if isinstance(st, ast.Assign) and len(st.targets) == 1 and isinstance(st.targets[0], ast.Name):
            t = _timeout_attr(st.value)
            if t is not None:
                self.started[st.targets[0].id] = t
                return
        if isinstance(st, ast.Try):
            # `t.start()` before, `t.cancel()` in finally: the body (and handlers) run under t
            inner = scope
            cancels = [n for n in ast.walk(ast.Module(body=st.finalbody, type_ignores=[])) if isinstance(n, ast.Call)
                       and isinstance(n.func, ast.Attribute) and n.func.attr in ('cancel', 'close') and isinstance(n.func.value, ast.Name)
                       and n.func.value.id in self.started]
            if cancels:
                inner = self.started[cancels[0].func.value.id]
            self._stmts(st.body, inner)
            for h in st.handlers:
                self._stmts(h.body, scope)
            self._stmts(st.orelse, inner)
            self._stmts(st.finalbody, scope)
            return
        if isinstance(st, (ast.FunctionDef, ast.ClassDef, ast.AsyncFunctionDef)):
            return
        # generic statement: expressions at this level, nested statement lists with the same scope
        for field, value in ast.iter_fields(st):
            if isinstance(value, list) and value and isinstance(value[0], ast.stmt):
                self._stmts(value, scope)
            elif isinstance(value, list):
                for v in value:
                    if isinstance(v, ast.AST):
                        self._expr(v, scope)
            elif isinstance(value, ast.AST):
                self._expr(value, scope)

    def _expr(self, node, scope):
        for n in ast.walk(node):
            if isinstance(n, ast.Call):
                d = _dotted(n.func)
                if self.is_blocking(self.fn, d):
                    self.found.append((self.fn, d, scope or 'unscoped'))


def scan(relpath, classname, is_blocking):
    src = open(os.path.join(REPO, relpath)).read()
    tree = ast.parse(src)
    w = _Walker(is_blocking)
    for node in tree.body:
        if isinstance(node, ast.ClassDef) and node.name == classname:
            for fn in node.body:
                if isinstance(fn, ast.FunctionDef):
                    w.walk_function(fn)
    return w.found


def _server_blocking(fn, d):
    return d in ('self.io.recv_command', 'reader.recv', 'self.io.encrypt_socket_server', 'auth.server_attempt')


def _edge_blocking(fn, d):
    return d == 'smtp_server.io.close'


_CLIENT_NONBLOCKING = ('has_reply_waiting',)


def _relay_blocking(fn, d):
    if d == 'self.socket_creator':
        return True
    if d.startswith('self.client.') and d.split('.')[-1] not in _CLIENT_NONBLOCKING and not d.startswith('self.client.io.socket'):
        return True
    return False


def _pipe_blocking(fn, d):
    return d in ('self._exec_process',)


def _http_blocking(fn, d):
    # HTTPConnection.close() closes the socket without waiting for the peer; everything else on the connection can block
    return (d.startswith('self.conn.') and d != 'self.conn.close') or d == 'self._process_response'


# ---- mapping to the stages of Model/Timeouts.lean

ATTR_SCOPE = {'command_timeout': 'command', 'data_timeout': 'data', 'connect_timeout': 'connect', 'timeout': 'single',
              'relay.timeout': 'single', 'unscoped': 'unscoped'}

RELAY_STAGE_OF = {
    ('_connect', 'self.socket_creator'): 'connect',
    ('_encrypt', 'self.client.encrypt'): 'tlsImmediate',
    ('_banner', 'self.client.get_banner'): 'banner',
    ('_ehlo', 'self.client.ehlo'): 'ehlo',
    ('_ehlo', 'self.client.lhlo'): 'ehlo',
    ('_helo', 'self.client.helo'): 'helo',
    ('_starttls', 'self.client.starttls'): 'starttls',
    ('_authenticate', 'self.client.auth'): 'auth',
    ('_mailfrom', 'self.client.mailfrom'): 'mail',
    ('_rcptto', 'self.client.rcptto'): 'rcpt',
    ('_data', 'self.client.data'): 'data',
    ('_send_empty_data', 'self.client.send_empty_data'): 'sendData',
    ('_send_message_data', 'self.client.send_data'): 'sendData',
    ('_send_message_data', 'self.client._flush_pipeline'): 'sendData',
    ('_rset', 'self.client.rset'): 'rset',
    ('_disconnect', 'self.client.quit'): 'quit',
    ('_disconnect', 'self.client.io.close'): 'close',
    ('_check_server_timeout', 'self.client.get_reply'): 'idleReply',
}

SERVER_STAGE_OF = {
    ('_recv_command', 'self.io.recv_command'): ['command'],
    ('_get_message_data', 'reader.recv'): ['data'],
    ('_encrypt_session', 'self.io.encrypt_socket_server'): ['tlsImmediate', 'starttlsHandshake'],
    ('_command_AUTH', 'auth.server_attempt'): ['authResponse'],
}


def extract():
    """-> (table: {'server': {stage: scope}, 'relay': {...}, 'pipe': {...}, 'http': {...}}, problems: [str])"""
    problems = []
    table = {'server': {}, 'relay': {}, 'pipe': {}, 'http': {}}

    def put(group, stage, scope, where):
        sc = ATTR_SCOPE.get(scope, 'other:' + scope)
        old = table[group].get(stage)
        if old is not None and old != sc:
            problems.append('%s: stage %s sits in %s and in %s' % (where, stage, old, sc))
            sc = 'unscoped' if 'unscoped' in (old, sc) else old
        table[group][stage] = sc

    for fn, d, scope in scan('slimta/smtp/server.py', 'Server', _server_blocking):
        stages = SERVER_STAGE_OF.get((fn, d))
        if stages is None:
            problems.append('server.py: blocking call %s in %s is not in the table' % (d, fn))
            continue
        for st in stages:
            put('server', st, scope, 'server.py ' + fn)
    for fn, d, scope in scan('slimta/edge/smtp.py', 'SmtpEdge', _edge_blocking):
        put('server', 'close', scope, 'edge/smtp.py ' + fn)
    for rel, cls in (('slimta/relay/smtp/client.py', 'SmtpRelayClient'), ('slimta/relay/smtp/lmtpclient.py', 'LmtpRelayClient')):
        for fn, d, scope in scan(rel, cls, _relay_blocking):
            st = RELAY_STAGE_OF.get((fn, d))
            if st is None:
                if d in ('self.client.last_error',):
                    continue
                problems.append('%s: blocking call %s in %s is not in the table' % (rel, d, fn))
                continue
            put('relay', st, scope, rel + ' ' + fn)
    for fn, d, scope in scan('slimta/relay/pipe.py', 'PipeRelay', _pipe_blocking):
        put('pipe', 'exec', scope, 'pipe.py ' + fn)
    for fn, d, scope in scan('slimta/relay/http.py', 'HttpRelayClient', _http_blocking):
        put('http', 'request', scope, 'http.py ' + fn)
    return table, problems


def render(table):
    out = []
    for group in ('server', 'relay', 'pipe', 'http'):
        out.append(group + ' ' + ' '.join('%s=%s' % kv for kv in sorted(table[group].items())))
    return ' | '.join(out)


if __name__ == '__main__':
    t, p = extract()
    print(render(t))
    for x in p:
        print('PROBLEM', x)
