"""./check Cxx [--tier quick|thorough] [--replay F]   — see DESIGN.md section 3."""
from __future__ import annotations

import argparse
import importlib
import json
import os
import sys
import time

VERIF = os.path.dirname(os.path.dirname(os.path.abspath(__file__)))
sys.path.insert(0, VERIF)

from harness import core  # noqa: E402


def known_entries(prop, status):
    return [k for k in core.load_known() if k['property'] == prop and k['status'] == status]


def do_replay(prop, path):
    os.environ[core.GUARD] = '1'
    core.assert_repo_import()
    mod = importlib.import_module('harness.props.' + prop.lower())
    body = json.load(open(path))
    case = body.get('case')
    if case is None:
        print('replay file has no concrete case (kind=%s): %s' % (body.get('kind'), body.get('theorem') or body.get('detail')))
        return 1
    model = core.Model()
    try:
        r = mod.run_case(case, model)
    finally:
        model.close()
    print('case      :', json.dumps(case)[:2000])
    print('mismatch  :', json.dumps(r.mismatch, default=repr)[:2000])
    for h in r.hits:
        print('monitor   :', json.dumps(h, default=repr)[:2000])
    if not r.hits:
        print('monitor   : no violation')
    known = {k['signature'] for k in known_entries(prop, 'known')}
    bad = [h for h in r.hits if h['signature'] not in known]
    if bad:
        print('VIOLATION property=%s replay=%s' % (prop, path))
        return 1
    return 1 if r.mismatch else 0


def main():
    ap = argparse.ArgumentParser()
    ap.add_argument('prop')
    ap.add_argument('--tier', default=os.environ.get('VERIF_TIER', 'quick'), choices=['quick', 'thorough'])
    ap.add_argument('--replay')
    a = ap.parse_args()
    prop = a.prop.upper()
    seed = int(os.environ.get('VERIF_SEED', '0'))
    if a.replay:
        sys.exit(do_replay(prop, a.replay))

    t0 = time.time()
    os.environ[core.GUARD] = '1'
    mod = importlib.import_module('harness.props.' + prop.lower())
    known = known_entries(prop, 'known')
    known_sigs = {k['signature']: k for k in known}

    # 1. PROOF
    proof = core.proof_stage(prop, a.tier)
    print('[%s] proof stage: %d/%d theorems, build %.1fs%s' % (
        prop, proof['discharged'], proof['obligations'], proof.get('build_s', 0),
        '' if proof['ok'] else '  PROBLEMS: ' + '; '.join(proof['problems'])[:600]))
    driver_ok = os.path.exists(core.DRIVER)
    if not driver_ok:
        print('[%s] model driver missing; cannot run the correspondence' % prop)
        sys.exit(2)

    # 2./3. CORRESPOND + MONITOR
    agg = core.run_campaign(prop, a.tier, seed, 'main')
    print('[%s] campaign: %d cases, %d distinct non-trivial, %d mismatches, %d monitor hits, %d harness errors (%.1fs)' % (
        prop, agg['evaluations'], len(agg['keys']), len(agg['mismatches']), len(agg['hits']), len(agg['errors']),
        time.time() - t0))
    if agg['errors']:
        for e in agg['errors'][:3]:
            print('[%s] harness error: %s' % (prop, json.dumps(e, default=repr)[-1500:]))

    # anchor fingerprints: the model was last validated against other source text -> validate it harder (not a violation by itself)
    changed_rel, changed_all = [], []
    try:
        from harness import anchors
        files = []
        for l in open(os.path.join(core.VERIF, 'properties.jsonl')):
            d = json.loads(l)
            if d['id'] == prop:
                files = d['anchors'].get('files', [])
        changed_rel, changed_all = anchors.changed_for(files)
    except Exception as e:
        print('[%s] anchor fingerprints not available: %r' % (prop, e))
    if changed_rel:
        print('[%s] anchored source differs from the fingerprints the model was validated against: %s' % (prop, ', '.join(changed_rel)))
    if (changed_rel and a.tier == 'quick' and not agg['mismatches'] and not agg['errors']
            and not [h for h in agg['hits'] if h['hit']['signature'] not in known_sigs] and not os.environ.get('VERIF_NODEEP')):
        deep = core.run_campaign(prop, 'thorough', seed + 7, 'deep')
        print('[%s] deeper campaign because of the changed source: %d cases, %d mismatches, %d monitor hits' % (
            prop, deep['evaluations'], len(deep['mismatches']), len(deep['hits'])))
        agg['evaluations'] += deep['evaluations']
        agg['keys'].update(deep['keys'])
        for t, c in deep['tags'].items():
            agg['tags'][t] = agg['tags'].get(t, 0) + c
        for f in ('mismatches', 'hits', 'errors'):
            agg[f].extend(deep[f])

    new_hits = [h for h in agg['hits'] if h['hit']['signature'] not in known_sigs]
    known_hits = {}
    for h in agg['hits']:
        s = h['hit']['signature']
        if s in known_sigs:
            known_hits.setdefault(s, h)

    lines = []
    exit_code = 0
    broken = (not proof['ok']) or bool(agg['mismatches']) or bool(agg['errors'])
    searched = None
    if not new_hits and broken and not os.environ.get('VERIF_NOSEARCH'):
        # 4b. SEARCH for a concrete failing input on the implementation
        print('[%s] proof/correspondence broken: searching the implementation for a failing input' % prop)
        searched = core.run_campaign(prop, 'thorough' if a.tier == 'quick' else 'thorough', seed + 1, 'search')
        new_hits = [h for h in searched['hits'] if h['hit']['signature'] not in known_sigs]
        print('[%s] search: %d cases, %d monitor hits' % (prop, searched['evaluations'], len(searched['hits'])))

    violations = 0
    if new_hits:
        seen = set()
        for h in new_hits:
            s = h['hit']['signature']
            if s in seen:
                continue
            seen.add(s)
            case = h['case']
            if hasattr(mod, 'shrink'):
                try:
                    case = mod.shrink(case, s) or case
                except Exception:
                    pass
            path = core.write_replay(prop, 'failing-input', {
                'case': case, 'seed': seed, 'signature': s, 'what': h['hit'].get('what'),
                'observed': h['hit'].get('observed'), 'expected': h['hit'].get('expected'),
                'proof_problems': proof['problems'], 'mismatch': (agg['mismatches'][:1] or [None])[0]})
            lines.append('VIOLATION property=%s replay=%s' % (prop, path))
            violations += 1
        exit_code = 1
    elif broken:
        if not proof['ok']:
            detail = {'theorem': [t['name'] for t in proof['theorems'] if not t['ok']] or 'lake build Proofs.%s' % prop,
                      'detail': proof['problems']}
            kind = 'proof'
        elif agg['mismatches']:
            detail = {'theorem': 'correspondence %s: model and implementation differ' % prop,
                      'case': agg['mismatches'][0]['case'], 'detail': agg['mismatches'][0]['mismatch'],
                      'more': len(agg['mismatches'])}
            kind = 'correspondence'
        else:
            detail = {'theorem': 'correspondence %s: harness could not run the implementation' % prop,
                      'detail': agg['errors'][:2]}
            kind = 'correspondence'
        path = core.write_replay(prop, kind, dict(detail, seed=seed))
        lines.append('VIOLATION property=%s replay=%s no-failing-input-found' % (prop, path))
        violations += 1
        exit_code = 1

    # known findings: replay each witness; print the line while it still fails
    printed = []
    if known:
        core.assert_repo_import()
        model = core.Model()
        try:
            for k in known:
                still = k['signature'] in known_hits
                if not still and k.get('witness') is not None:
                    try:
                        r = mod.run_case(k['witness'], model)
                        still = any(h['signature'] == k['signature'] for h in r.hits)
                    except Exception as e:  # a witness that no longer runs is reported, not hidden
                        print('[%s] known-finding witness could not be replayed: %r' % (prop, e))
                if still:
                    print('KNOWN-FINDING: property=%s %s' % (prop, k['what']))
                    printed.append(k['signature'])
                else:
                    print('[%s] note: known finding %s no longer reproduces' % (prop, k['signature']))
        finally:
            model.close()

    for l in lines:
        print(l)
    extra = getattr(mod, 'evidence_extra', lambda agg: {})(agg)
    if searched is not None:
        extra['search_evaluations'] = searched['evaluations']
    extra['anchored_source_changed'] = changed_rel
    extra['source_changed_elsewhere'] = [m for m in changed_all if m not in changed_rel]
    core.write_evidence(prop, a.tier, seed, proof, agg, time.time() - t0, violations, extra=extra,
                        rule=getattr(mod, 'RULE', ''), known_printed=printed)
    print('[%s] %s in %.1fs' % (prop, 'PASS' if exit_code == 0 else 'FAIL', time.time() - t0))
    sys.exit(exit_code)


if __name__ == '__main__':
    main()
