"""Shared machinery of the /verif checks: paths, the Lean model driver client, deterministic RNG,
proof-stage (lake build + axiom audit), campaign runner, decision procedure, evidence and replays.

Every check is `./check Cxx [--tier quick|thorough] [--replay F]`; see DESIGN.md section 3.
"""
from __future__ import annotations

import hashlib
import importlib
import json
import os
import random
import re
import subprocess
import sys
import time
import traceback

VERIF = os.path.dirname(os.path.dirname(os.path.abspath(__file__)))
LEAN_DIR = os.path.join(VERIF, 'lean')
DRIVER = os.path.join(LEAN_DIR, '.lake', 'build', 'bin', 'modeldriver')
REPO = os.environ.get('VERIF_REPO', '/repo')
GUARD = 'SLIMTA_VERIF'
ALLOWED_AXIOMS = {'propext', 'Classical.choice', 'Quot.sound'}
NWORKERS = int(os.environ.get('VERIF_WORKERS', '16'))

TRUSTED_BASE = [
    'Lean 4.33.0 kernel (theorems); thorough tier re-checks .olean files with leanchecker',
    'axioms admitted: propext, Classical.choice, Quot.sound (audited per theorem on every run)',
    'Lean compiler/runtime for the native model driver (runs model definitions for the correspondence only)',
    'hand-written model = transliteration of the anchored code; tied to /repo by this run\'s differential campaign',
    'the correspondence harness: generators, canonicalisers, scripted sockets / gates / fake substrates (harness/)',
    'modelled, not verified: gevent scheduling, CPython re/email/pickle/base64/int(), pysasl, TLS, kernel file-system semantics',
]


def assert_repo_import():
    """The implementation under test must be /repo's working tree."""
    import warnings
    warnings.filterwarnings('ignore')
    import slimta.smtp
    path = os.path.realpath(os.path.dirname(os.path.dirname(slimta.smtp.__file__)))
    want = os.path.realpath(os.path.join(REPO, 'slimta'))
    if path != want:
        raise RuntimeError('slimta imported from %s, expected %s' % (path, want))


# ---------------------------------------------------------------------------------------------
# deterministic randomness

def rng_for(seed, *keys):
    h = hashlib.sha256(repr((seed,) + keys).encode()).digest()
    return random.Random(int.from_bytes(h[:8], 'big'))


# ---------------------------------------------------------------------------------------------
# hex helpers for the line protocol

def hx(b):
    return b.hex() if b else '-'


def hxl(parts):
    if not parts:
        return '-'
    return ','.join(p.hex() if p else '_' for p in parts)


def unhx(s):
    return b'' if s == '-' else bytes.fromhex(s)


# ---------------------------------------------------------------------------------------------
# model driver

class Model(object):
    """One native `modeldriver` process; `ask(line)` returns the one-line answer."""

    def __init__(self):
        if not os.path.exists(DRIVER):
            raise RuntimeError('model driver not built: run ./setup.sh')
        self.p = subprocess.Popen([DRIVER], stdin=subprocess.PIPE, stdout=subprocess.PIPE, bufsize=0)
        self.n = 0

    def ask(self, line):
        self.n += 1
        self.p.stdin.write(line.encode() + b'\nflush\n')
        out = self.p.stdout.readline()
        if not out:
            raise RuntimeError('model driver died on: %s' % line[:200])
        return out.decode().rstrip('\n')

    def ask_many(self, lines):
        if not lines:
            return []
        self.n += len(lines)
        self.p.stdin.write(('\n'.join(lines) + '\nflush\n').encode())
        return [self.p.stdout.readline().decode().rstrip('\n') for _ in lines]

    def close(self):
        try:
            self.p.stdin.close()
            self.p.wait(timeout=5)
        except Exception:
            self.p.kill()


# ---------------------------------------------------------------------------------------------
# results of one case

class CaseResult(object):
    """What running one case produced.

    mismatch : None or a dict describing where implementation and model differ
    hits     : list of monitor hits, each {'signature': str, 'what': str, 'observed': ..., 'expected': ...}
    key      : hashable used to count distinct non-trivial cases (None = trivial)
    tags     : list of short strings counted into the input distribution
    """
    __slots__ = ('mismatch', 'hits', 'key', 'tags')

    def __init__(self, mismatch=None, hits=None, key=None, tags=()):
        self.mismatch = mismatch
        self.hits = hits or []
        self.key = key
        self.tags = list(tags)


def hit(signature, what, **kw):
    d = {'signature': signature, 'what': what}
    d.update(kw)
    return d


# ---------------------------------------------------------------------------------------------
# proof stage

_THEOREM_RE = re.compile(r'^\s*(?:protected\s+|private\s+)?theorem\s+([A-Za-z_][\w\.\'\?!]*)', re.M)
_BANNED = re.compile(r'\b(sorry|admit|native_decide|bv_decide|implemented_by|unsafe)\b|^\s*axiom\s|maxHeartbeats\s+0\b', re.M)


def strip_lean_comments(src):
    out = []
    i = 0
    depth = 0
    n = len(src)
    while i < n:
        if src.startswith('/-', i):
            depth += 1
            i += 2
        elif depth and src.startswith('-/', i):
            depth -= 1
            i += 2
        elif depth:
            i += 1
        elif src.startswith('--', i):
            j = src.find('\n', i)
            i = n if j < 0 else j
        else:
            out.append(src[i])
            i += 1
    return ''.join(out)


def lean_sources():
    res = []
    for d in ('Model', 'Proofs', 'Driver'):
        for root, _, files in os.walk(os.path.join(LEAN_DIR, d)):
            for f in files:
                if f.endswith('.lean'):
                    res.append(os.path.join(root, f))
    return sorted(res)


def proof_stage(prop, tier):
    """Build the model, the driver and this property's theorems; audit sources and axioms.

    Returns dict: ok, obligations, discharged, theorems [{name, axioms, ok}], problems [str], checker_cmd.
    """
    res = {'ok': False, 'obligations': 0, 'discharged': 0, 'theorems': [], 'problems': [], 'checker_cmd': ''}
    proof_file = os.path.join(LEAN_DIR, 'Proofs', prop + '.lean')
    if not os.path.exists(proof_file):
        res['problems'].append('no Proofs/%s.lean' % prop)
        return res
    targets = ['Model', 'Proofs.' + prop, 'modeldriver']
    cmd = ['lake', 'build'] + targets
    res['checker_cmd'] = 'cd lean && ' + ' '.join(cmd) + ' && lake env lean <generated #print axioms file>'
    t0 = time.time()
    p = subprocess.run(cmd, cwd=LEAN_DIR, stdout=subprocess.PIPE, stderr=subprocess.STDOUT, text=True)
    res['build_s'] = round(time.time() - t0, 1)
    if p.returncode != 0:
        res['problems'].append('lake build failed: ' + p.stdout[-1500:])
        return res
    # source audit (comments stripped)
    for f in lean_sources():
        src = strip_lean_comments(open(f).read())
        m = _BANNED.search(src)
        if m:
            res['problems'].append('banned construct %r in %s' % (m.group(0).strip(), os.path.relpath(f, LEAN_DIR)))
    # the property theorems are exactly the `theorem`s of Proofs/Cxx.lean
    src = strip_lean_comments(open(proof_file).read())
    ns = re.search(r'^namespace\s+(\S+)', src, re.M)
    prefix = (ns.group(1) + '.') if ns else ''
    names = [prefix + n for n in _THEOREM_RE.findall(src)]
    res['obligations'] = len(names)
    if not names:
        res['problems'].append('no theorems in Proofs/%s.lean' % prop)
        return res
    audit_dir = os.path.join(LEAN_DIR, '.lake', 'audit')
    os.makedirs(audit_dir, exist_ok=True)
    audit = os.path.join(audit_dir, prop + '_audit.lean')
    with open(audit, 'w') as f:
        f.write('import Proofs.%s\n' % prop)
        for n in names:
            f.write('#print axioms %s\n' % n)
    p = subprocess.run(['lake', 'env', 'lean', audit], cwd=LEAN_DIR, stdout=subprocess.PIPE,
                       stderr=subprocess.STDOUT, text=True)
    out = p.stdout.replace('\n  ', ' ').replace('\n ', ' ')
    for n in names:
        m = re.search(r"'%s' depends on axioms: \[([^\]]*)\]" % re.escape(n), out)
        if m:
            ax = [a.strip() for a in m.group(1).split(',') if a.strip()]
        elif re.search(r"'%s' does not depend on any axioms" % re.escape(n), out):
            ax = []
        else:
            res['theorems'].append({'name': n, 'axioms': None, 'ok': False})
            res['problems'].append('axiom audit produced nothing for %s: %s' % (n, p.stdout[-300:]))
            continue
        ok = set(ax) <= ALLOWED_AXIOMS
        if not ok:
            res['problems'].append('theorem %s depends on %s' % (n, ax))
        res['theorems'].append({'name': n, 'axioms': ax, 'ok': ok})
    if tier == 'thorough' and not res['problems']:
        mods = ['Proofs.' + prop]
        p = subprocess.run(['lake', 'env', 'leanchecker'] + mods, cwd=LEAN_DIR, stdout=subprocess.PIPE,
                           stderr=subprocess.STDOUT, text=True)
        res['checker_cmd'] += ' && lake env leanchecker ' + ' '.join(mods)
        if p.returncode != 0:
            res['problems'].append('leanchecker failed: ' + p.stdout[-800:])
    res['discharged'] = sum(1 for t in res['theorems'] if t['ok']) if not any(
        'banned' in x or 'leanchecker' in x for x in res['problems']) else 0
    res['ok'] = not res['problems'] and res['discharged'] == res['obligations']
    return res


# ---------------------------------------------------------------------------------------------
# known findings

def load_known():
    p = os.path.join(VERIF, 'known_findings.json')
    if not os.path.exists(p):
        return []
    return json.load(open(p))['findings']


def corpus_cases(prop):
    """Minimised past disagreements / violations and the witnesses of fixed findings: always run first."""
    d = os.path.join(VERIF, 'corpus', prop)
    if os.path.isdir(d):
        for f in sorted(os.listdir(d)):
            if f.endswith('.json'):
                yield json.load(open(os.path.join(d, f)))
    for k in load_known():
        if k['property'] == prop and k['status'] == 'fixed' and k.get('witness') is not None:
            yield k['witness']


# ---------------------------------------------------------------------------------------------
# campaign runner (worker side)

CASE_LIMIT_S = int(os.environ.get('VERIF_CASE_LIMIT_S', '90'))


class CaseHung(BaseException):
    pass


def _on_alarm(signum, frame):
    raise CaseHung()


def _alarm(seconds):
    import signal
    try:
        signal.signal(signal.SIGALRM, _on_alarm)
        signal.alarm(seconds)
    except (ValueError, OSError):
        pass          # not in the main thread: no watchdog


def _worker(args):
    prop, tier, seed, k, n, phase = args
    os.environ[GUARD] = '1'
    sys.path.insert(0, VERIF)
    import logging as _logging
    _logging.disable(_logging.CRITICAL)      # scripted failures are logged by slimta; keep the check's output readable
    t0 = time.time()
    out = {'evaluations': 0, 'keys': set(), 'tags': {}, 'mismatches': [], 'hits': [], 'samples': [], 'errors': []}
    try:
        assert_repo_import()
        mod = importlib.import_module('harness.props.' + prop.lower())
        model = Model()
        try:
            budget = getattr(mod, 'BUDGET_S', {}).get(tier)
            if phase == 'search':
                budget = min(budget or 180, 180)
            elif phase == 'deep':
                budget = min(budget or 150, 150)
            import itertools
            stream = mod.cases(tier, seed, phase)
            if phase == 'main':
                stream = itertools.chain(corpus_cases(prop), stream)
            overlap = prop in OVERLAP_PROPS and not os.environ.get('VERIF_NO_OVERLAP')
            held = None          # a case waiting for a partner to be run at the same time
            mine = 0
            todo = []            # (case, result) pairs ready to be accounted
            for idx, case in enumerate(stream):
                if idx % n != k:
                    continue
                if callable(case):      # expensive cases are generated only by the worker that runs them
                    case = case()
                if budget and time.time() - t0 > budget:
                    out['tags']['budget-stop'] = out['tags'].get('budget-stop', 0) + 1
                    break
                mine += 1
                can_overlap = getattr(mod, 'overlap_ok', None)
                if overlap and held is None and mine % 8 == 0 and (can_overlap is None or can_overlap(case)):
                    held = case
                    continue
                _alarm(CASE_LIMIT_S)
                try:
                    if held is not None and (can_overlap is None or can_overlap(case)):
                        pair = [held, case]
                        run = lambda: _run_overlapped(mod, model, pair)
                    elif held is not None:
                        pair = [held, case]
                        run = lambda: [(c, mod.run_case(c, model)) for c in pair]
                    else:
                        one = case
                        run = lambda: [(one, mod.run_case(one, model))]
                    held = None
                    todo = run()
                    if prop in TIMING_PROPS and any(r.mismatch or r.hits for _, r in todo):
                        # these campaigns run real sockets, real timers and short timeouts: what a busy machine can cause once is
                        # examined a second time, the same way, before it is believed (a wrong program fails again)
                        again = run()
                        if not any(r.mismatch or r.hits for _, r in again):
                            for _, r in again:
                                r.tags.append('not-reproduced')
                            todo = again
                except CaseHung:
                    # the implementation (or the harness) did not finish one case within CASE_LIMIT_S: a busy loop. Reported as a
                    # failing input of its own kind; the worker goes on with the next case
                    _alarm(0)
                    _account(out, case, CaseResult(None, [hit('%s.case-did-not-finish' % prop.lower(), 'running this case did not finish within %d s (the code under test loops without yielding)' % CASE_LIMIT_S,
                                                              observed={'limit_s': CASE_LIMIT_S})], None, ['case-hung']))
                    held = None
                    hung = out['tags'].get('case-hung', 0)
                    if hung >= 2:
                        break
                    continue
                except Exception:
                    _alarm(0)
                    out['errors'].append({'case': case, 'error': traceback.format_exc()[-1500:]})
                    held = None
                    if len(out['errors']) > 5:
                        break
                    continue
                _alarm(0)
                for case, r in todo:
                    _account(out, case, r)
            if held is not None:
                try:
                    _account(out, held, mod.run_case(held, model))
                except Exception:
                    out['errors'].append({'case': held, 'error': traceback.format_exc()[-1500:]})
        finally:
            model.close()
    except Exception:
        out['errors'].append({'case': None, 'error': traceback.format_exc()[-2000:]})
    out['keys'] = [hashlib.md5(repr(x).encode()).hexdigest()[:12] for x in out['keys']]
    return out


TIMING_PROPS = {'C01', 'C02', 'C03', 'C06', 'C11', 'C13', 'C19'}      # C14 has its own, stricter repetition


# properties whose cases run over scripted sockets in one greenlet: two of them can be run at the same time
OVERLAP_PROPS = {'C05', 'C07', 'C08', 'C09', 'C10', 'C17', 'C11'}      # C11: real sockets, the cases yield by themselves


def _run_overlapped(mod, model, cases):
    """Run the cases at the same time, one greenlet each, every scripted-socket call yielding to the others: what a case
    observes must not depend on the sessions next to it (class-level or module-level state shared between sessions)."""
    import gevent
    from harness.fakes.sock import ScriptSocket
    res = [None] * len(cases)
    errs = []

    def go(i):
        try:
            res[i] = mod.run_case(cases[i], model)
        except Exception:
            errs.append(traceback.format_exc()[-1500:])
    ScriptSocket.YIELD = True
    try:
        gs = [gevent.spawn(go, i) for i in range(len(cases))]
        gevent.joinall(gs)
    finally:
        ScriptSocket.YIELD = False
    if errs:
        raise RuntimeError('overlapped run: ' + errs[0])
    if any(r is None for r in res):
        raise CaseHung()          # the watchdog ended a session greenlet that was looping
    for r in res:
        r.tags.append('run-overlapped')
    return list(zip(cases, res))


def _account(out, case, r):
    if True:
        if True:
            if True:
                out['evaluations'] += 1
                if r.key is not None:
                    out['keys'].add(r.key)
                for t in r.tags:
                    out['tags'][t] = out['tags'].get(t, 0) + 1
                if r.mismatch and len(out['mismatches']) < 20:
                    out['mismatches'].append({'case': case, 'mismatch': r.mismatch})
                for h in r.hits:
                    if len(out['hits']) < 200:
                        out['hits'].append({'case': case, 'hit': h})
                if len(out['samples']) < 2 and r.key is not None and out['evaluations'] % 7 == 1:
                    out['samples'].append(case)


def run_campaign(prop, tier, seed, phase='main', workers=None):
    """Run `cases(tier, seed, phase)` of the property module across worker processes."""
    import multiprocessing as mp
    n = workers or NWORKERS
    ctx = mp.get_context('spawn')
    agg = {'evaluations': 0, 'keys': set(), 'tags': {}, 'mismatches': [], 'hits': [], 'samples': [], 'errors': []}
    with ctx.Pool(n) as pool:
        for out in pool.imap_unordered(_worker, [(prop, tier, seed, k, n, phase) for k in range(n)]):
            agg['evaluations'] += out['evaluations']
            agg['keys'].update(out['keys'])
            for t, c in out['tags'].items():
                agg['tags'][t] = agg['tags'].get(t, 0) + c
            for f in ('mismatches', 'hits', 'samples', 'errors'):
                agg[f].extend(out[f])
    return agg


# ---------------------------------------------------------------------------------------------
# replay files, evidence

def write_replay(prop, kind, payload):
    d = os.path.join(VERIF, 'replays')
    os.makedirs(d, exist_ok=True)
    body = dict(payload)
    body['property'] = prop
    body['kind'] = kind
    blob = json.dumps(body, sort_keys=True, indent=1, default=repr)
    h = hashlib.sha256(blob.encode()).hexdigest()[:10]
    path = os.path.join(d, '%s-%s.json' % (prop, h))
    with open(path, 'w') as f:
        f.write(blob)
    return os.path.relpath(path, VERIF)


def write_evidence(prop, tier, seed, proof, agg, wall, violations, extra=None, rule='', known_printed=()):
    d = os.path.join(VERIF, 'evidence')
    os.makedirs(d, exist_ok=True)
    cov = {
        'obligations': max(1, proof.get('obligations', 0)),
        'discharged': proof.get('discharged', 0),
        'checker_cmd': proof.get('checker_cmd') or 'lake build',
        'trusted_base': TRUSTED_BASE,
        'theorems': proof.get('theorems', []),
        'proof_problems': proof.get('problems', []),
        'evaluations': agg['evaluations'],
        'distinct_nontrivial': len(agg['keys']),
        'rule': rule,
        'samples': agg['samples'][:6] or ['(no case run)'],
        'distribution': dict(sorted(agg['tags'].items())),
        'correspondence_mismatches': len(agg['mismatches']),
        'monitor_hits': len(agg['hits']),
        'harness_errors': len(agg['errors']),
        'known_findings_printed': list(known_printed),
    }
    if extra:
        cov.update(extra)
    ev = {
        'property_id': prop, 'tier': tier, 'seed': seed, 'level': 'proof', 'coverage': cov,
        'assumptions': TRUSTED_BASE, 'wall_s': round(wall, 2), 'violations': violations,
    }
    with open(os.path.join(d, prop + '.json'), 'w') as f:
        json.dump(ev, f, indent=1, default=repr, sort_keys=True)
        f.write('\n')
