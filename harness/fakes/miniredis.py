"""An in-process mini redis server (RESP2/RESP3) on loopback, enough for RedisStorage through the real redis-py
client: HELLO, CLIENT, SELECT, PING, HSETNX, HSET, HMSET, HGET, HMGET, HINCRBY, DEL, KEYS, RPUSH, LPUSH, BLPOP, LLEN,
MULTI/EXEC. Single-threaded under gevent: every command is atomic, commands of different connections interleave.
"""
import fnmatch

import gevent
from gevent.event import Event
from gevent.server import StreamServer


class MiniRedis(object):

    def __init__(self):
        self.data = {}          # key(bytes) -> dict (hash) | list
        self.server = StreamServer(('127.0.0.1', 0), self._handle)
        self.server.start()
        self.port = self.server.socket.getsockname()[1]
        self.push = Event()
        self.commands = 0
        self.yield_each = None     # optional callable run before each command (lets the harness interleave)

    def stop(self):
        self.server.stop()

    # ---- protocol
    def _read_cmd(self, f):
        line = f.readline()
        if not line:
            return None
        if not line.startswith(b'*'):
            return line.strip().split()
        n = int(line[1:])
        out = []
        for _ in range(n):
            hdr = f.readline()
            ln = int(hdr[1:])
            data = f.read(ln + 2)[:-2]
            out.append(data)
        return out

    def _enc(self, v, proto):
        if v is None:
            return b'_\r\n' if proto == 3 else b'$-1\r\n'
        if isinstance(v, bool):
            return b':%d\r\n' % int(v)
        if isinstance(v, int):
            return b':%d\r\n' % v
        if isinstance(v, bytes):
            return b'$%d\r\n%s\r\n' % (len(v), v)
        if isinstance(v, str):
            return b'+%s\r\n' % v.encode()
        if isinstance(v, Exception):
            return b'-ERR %s\r\n' % str(v).encode()
        if isinstance(v, dict):
            if proto == 3:
                return b'%%%d\r\n' % len(v) + b''.join(self._enc(k, proto) + self._enc(x, proto) for k, x in v.items())
            flat = []
            for k, x in v.items():
                flat += [k, x]
            return self._enc(flat, proto)
        if isinstance(v, (list, tuple)):
            return b'*%d\r\n' % len(v) + b''.join(self._enc(x, proto) for x in v)
        raise TypeError(v)

    def _handle(self, sock, addr):
        f = sock.makefile('rb')
        st = {'proto': 2, 'multi': None}
        try:
            while True:
                cmd = self._read_cmd(f)
                if cmd is None:
                    return
                if self.yield_each:
                    self.yield_each()
                name = cmd[0].upper()
                if st['multi'] is not None and name not in (b'EXEC', b'DISCARD', b'MULTI'):
                    st['multi'].append(cmd)
                    sock.sendall(b'+QUEUED\r\n')
                    continue
                res = self._exec(cmd, st)
                sock.sendall(self._enc(res, st['proto']))
        except (OSError, ValueError):
            pass
        finally:
            try:
                sock.close()
            except OSError:
                pass

    # ---- commands
    def _exec(self, cmd, st):
        self.commands += 1
        name = cmd[0].upper()
        a = cmd[1:]
        d = self.data
        if name == b'HELLO':
            if a and a[0] == b'3':
                st['proto'] = 3
            return {b'server': b'miniredis', b'version': b'7.0.0', b'proto': st['proto'], b'id': 1, b'mode': b'standalone',
                    b'role': b'master', b'modules': []}
        if name in (b'CLIENT', b'SELECT', b'AUTH'):
            return 'OK'
        if name == b'PING':
            return 'PONG'
        if name == b'MULTI':
            st['multi'] = []
            return 'OK'
        if name == b'EXEC':
            q, st['multi'] = st['multi'], None
            return [self._exec(c, st) for c in (q or [])]
        if name == b'HSETNX':
            h = d.setdefault(a[0], {})
            if a[1] in h:
                return 0
            h[a[1]] = a[2]
            return 1
        if name in (b'HSET', b'HMSET'):
            h = d.setdefault(a[0], {})
            new = 0
            for i in range(1, len(a) - 1, 2):
                if a[i] not in h:
                    new += 1
                h[a[i]] = a[i + 1]
            return 'OK' if name == b'HMSET' else new
        if name == b'HGET':
            h = d.get(a[0])
            return h.get(a[1]) if isinstance(h, dict) else None
        if name == b'HMGET':
            h = d.get(a[0])
            return [(h.get(k) if isinstance(h, dict) else None) for k in a[1:]]
        if name == b'HINCRBY':
            h = d.setdefault(a[0], {})
            v = int(h.get(a[1], b'0')) + int(a[2])
            h[a[1]] = b'%d' % v
            return v
        if name == b'DEL':
            n = 0
            for k in a:
                if k in d:
                    del d[k]
                    n += 1
            return n
        if name == b'KEYS':
            pat = a[0].decode('latin-1')
            return [k for k in list(d.keys()) if fnmatch.fnmatchcase(k.decode('latin-1'), pat)]
        if name in (b'RPUSH', b'LPUSH'):
            l = d.setdefault(a[0], [])
            for v in a[1:]:
                if name == b'RPUSH':
                    l.append(v)
                else:
                    l.insert(0, v)
            self.push.set()
            return len(l)
        if name == b'LLEN':
            l = d.get(a[0])
            return len(l) if isinstance(l, list) else 0
        if name == b'BLPOP':
            keys, timeout = a[:-1], float(a[-1])
            waited = 0.0
            while True:
                for k in keys:
                    l = d.get(k)
                    if isinstance(l, list) and l:
                        v = l.pop(0)
                        if not l:
                            del d[k]
                        return [k, v]
                self.push.clear()
                if timeout and waited >= timeout:
                    return None
                self.push.wait(0.05)
                waited += 0.05
        return Exception('unknown command %r' % name)
