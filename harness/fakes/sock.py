"""Scripted sockets for byte-level correspondence runs."""


class WouldBlock(BaseException):
    """The scripted peer has nothing more to give: the real code would block here."""


class ScriptSocket(object):
    """`recv(n)` hands out the scripted segments one at a time (cut to n), `sendall` records.
    With `ScriptSocket.YIELD` set every recv / send first yields to the other greenlets (the campaign runner sets it
    while it runs two cases at the same time: sessions must not influence each other)."""
    YIELD = False

    def __init__(self, segments, eof=False):
        self.segments = [bytes(s) for s in segments]
        self.eof = eof
        self.sent = []
        self.recvd = []       # what each recv() call actually returned
        self.closed = False

    def fileno(self):
        return -1

    def getpeername(self):
        return ('peer', 0)

    def _yield(self):
        if ScriptSocket.YIELD:
            import gevent
            gevent.sleep(0)

    def recv(self, n):
        self._yield()
        if not self.segments:
            if self.eof:
                self.recvd.append(b'')
                return b''
            raise WouldBlock()
        seg = self.segments[0]
        if len(seg) > n:
            out, self.segments[0] = seg[:n], seg[n:]
        else:
            out = self.segments.pop(0)
        self.recvd.append(out)
        return out

    def sendall(self, data):
        self._yield()
        self.sent.append(bytes(data))

    def send(self, data):
        self._yield()
        self.sent.append(bytes(data))
        return len(data)

    def close(self):
        self.closed = True

    def unread(self):
        return b''.join(self.segments)


def cut(stream, cuts):
    """Cut `stream` at the sorted offsets `cuts` (0 < c < len); no empty segments."""
    out = []
    last = 0
    for c in sorted(set(cuts)):
        if 0 < c < len(stream):
            out.append(stream[last:c])
            last = c
    if last < len(stream):
        out.append(stream[last:])
    return out
