"""A fake cloud object store with the interface CloudStorage needs, following what
slimta/cloudstorage/aws.py:SimpleStorageService does (read from its source; boto is not importable here):
metadata 'attempts' / 'delivered_indexes' are absent until set, unknown ids raise KeyError, envelopes are pickled."""
import pickle


class FakeObjectStore(object):

    def __init__(self, yield_each=None):
        self.objs = {}
        self.n = 0
        self.yield_each = yield_each

    def _y(self):
        if self.yield_each:
            self.yield_each()

    def _get(self, id):
        if id not in self.objs:
            raise KeyError(id)
        return self.objs[id]

    def write_message(self, envelope, timestamp):
        self._y()
        self.n += 1
        id = 'obj-%06d' % self.n
        self.objs[id] = {'raw': pickle.dumps(envelope, pickle.HIGHEST_PROTOCOL), 'timestamp': timestamp,
                         'attempts': None, 'delivered_indexes': None}
        return id

    def set_message_meta(self, id, timestamp=None, attempts=None, delivered_indexes=None):
        self._y()
        o = self._get(id)
        if timestamp is not None:
            o['timestamp'] = timestamp
        if attempts is not None:
            o['attempts'] = attempts
        if delivered_indexes is not None:
            o['delivered_indexes'] = list(delivered_indexes)

    def _meta(self, o):
        meta = {'timestamp': o['timestamp']}
        if o['attempts']:
            meta['attempts'] = o['attempts']
        if o['delivered_indexes']:
            meta['delivered_indexes'] = list(o['delivered_indexes'])
        return meta

    def get_message_meta(self, id):
        self._y()
        return self._meta(self._get(id))

    def get_message(self, id):
        self._y()
        o = self._get(id)
        return pickle.loads(o['raw']), self._meta(o)

    def delete_message(self, id):
        self._y()
        self._get(id)
        del self.objs[id]

    def list_messages(self):
        self._y()
        return [(o['timestamp'], id) for id, o in list(self.objs.items())]
