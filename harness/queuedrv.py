"""Drives the real slimta Queue through a scripted delivery history (one outcome per attempt) on a chosen storage
backend and records what the relay, the bounce factory / bounce queue and the store saw. Shared by C01, C03, C13.

Outcome syntax (also the model's): S | P<r> | T<r> | X<r> | M<rc>=<v>,... | Q<v>,...   with v in o | p<r> | t<r>.
"""
import re
import time

import gevent
import gevent.event
from gevent.pool import Pool

ORIG_HEADERS = b'From: orig@sender.example\r\nSubject: test \xe9\r\nX-Long: a\r\n b\r\n'
ORIG_BODY = b'line one\r\n.\r\n\xff\xfe body\r\n'


def addr(n):
    return 'rcpt%d@example.com' % n


def unaddr(a):
    m = re.match(r'rcpt(\d+)@', a)
    return int(m.group(1)) if m else -1


def reply_for(kind, r):
    from slimta.smtp.reply import Reply
    if kind == 'p':
        return Reply('550', '5.0.0 perm r%d' % r)
    return Reply('450', '4.0.0 temp r%d' % r)


def reply_id(reply):
    m = re.search(r'(?:r|boom)(\d+)', reply.message)
    return int(m.group(1)) if m else -1


def parse_outcome(s):
    k = s[0]
    if k == 'S':
        return ('S',)
    if k in 'PTX':
        return (k, int(s[1:]))
    items = [x for x in s[1:].split(',') if x]
    if k == 'M':
        out = []
        for it in items:
            rc, v = it.split('=')
            out.append((int(rc), v))
        return ('M', out)
    return ('Q', items)


def value_for(v):
    from slimta.relay import PermanentRelayError, TransientRelayError
    if v == 'o':
        return None
    if v[0] == 'p':
        return PermanentRelayError('perm', reply_for('p', int(v[1:])))
    return TransientRelayError('temp', reply_for('t', int(v[1:])))


class History(object):
    """Observations of one run."""
    def __init__(self):
        self.attempts = []       # (round, [rcpt ids], attempts arg)
        self.bounces = []        # dict(round, reply, rcpts, too_many, obj)
        self.enqueued = []       # bounce objects handed to bounce_queue.enqueue
        self.overlap = 0         # max concurrent attempts
        self.pending = None      # (rcpts, attempts) of the attempt that started after the script ended
        self.errors = []


def _run_history_body(h, backend, sender, factory_bounces, backoff_table, rcpts, outcomes, store_pool=None, relay_pool=None,
                headers_only=False, timeout=5.0, expect_rounds=None, store_fail=None):
    """backend: harness.props.c15.Backend instance. Returns (History, final) with final =
    ('gone',) or ('alive', [rcpt ids], attempts)."""
    from slimta.queue import Queue
    from slimta.relay import Relay, PermanentRelayError, TransientRelayError
    from slimta.envelope import Envelope
    from slimta.bounce import Bounce
    from slimta.smtp.reply import Reply

    try:
        gevent.get_hub().exception_stream = None      # failing attempt greenlets are part of the scripts
    except Exception:
        pass
    script = [parse_outcome(o) for o in outcomes]
    state = {'calls': 0, 'inflight': 0}

    class ScriptRelay(Relay):
        def attempt(self, envelope, attempts):
            state['inflight'] += 1
            h.overlap = max(h.overlap, state['inflight'])
            try:
                k = state['calls']
                if k >= len(script):
                    # beyond the script: this attempt never finishes, the history is frozen here
                    h.pending = ([unaddr(a) for a in envelope.recipients], attempts)
                    state['inflight'] -= 1
                    state['parked'] = state.get('parked', 0) + 1
                    try:
                        gevent.event.Event().wait()
                    finally:
                        state['inflight'] += 1
                state['calls'] += 1
                h.attempts.append((k, [unaddr(a) for a in envelope.recipients], attempts))
                o = script[k]
                if o[0] == 'S':
                    return None if k % 2 == 0 else Reply('250', '2.0.0 ok')
                if o[0] == 'P':
                    raise PermanentRelayError('perm', reply_for('p', o[1]))
                if o[0] == 'T':
                    raise TransientRelayError('temp', reply_for('t', o[1]))
                if o[0] == 'X':
                    raise RuntimeError('boom%d' % o[1])
                if o[0] == 'M':
                    return dict((addr(rc), value_for(v)) for rc, v in o[1])
                return [value_for(v) for v in o[1]]
            finally:
                state['inflight'] -= 1

    def factory(envelope, reply):
        rec = {'round': state['calls'] - 1, 'reply': reply_id(reply), 'code': reply.code, 'message': reply.message,
               'rcpts': [unaddr(a) for a in envelope.recipients], 'too_many': reply.message.endswith('(Too many retries)'),
               'env_sender': envelope.sender, 'obj': None}
        h.bounces.append(rec)
        if not factory_bounces:
            return None
        b = Bounce(envelope, reply, headers_only=headers_only)
        rec['obj'] = b
        return b

    class BounceQueue(object):
        def enqueue(self, env):
            h.enqueued.append(env)
            return [(env, 'bounce-id')]

    def backoff(envelope, attempts):
        if attempts - 1 < len(backoff_table):
            return backoff_table[attempts - 1]
        return None

    class StoreProxy(object):
        """Counts storage operations in flight so that quiescence can be seen from outside."""
        def __init__(self, inner):
            self._inner = inner

        def __getattr__(self, name):
            if name == 'wait':
                # announcements racing with enqueue are a schedule of their own (C03/C12 scheduler runs)
                def nowait():
                    raise NotImplementedError()
                return nowait
            f = getattr(self._inner, name)
            if not callable(f):
                return f

            def call(*a, **kw):
                state['store_inflight'] = state.get('store_inflight', 0) + 1
                try:
                    if store_fail and name == store_fail[0]:
                        # the storage fails once, at the n-th call of this operation (a full disk, a lost connection)
                        k = state.get('fail_seen', 0)
                        state['fail_seen'] = k + 1
                        if k == store_fail[1]:
                            from slimta.queue import QueueError
                            h.errors.append('injected: %s #%d' % (name, k))
                            raise QueueError('storage failed')
                    return f(*a, **kw)
                finally:
                    state['store_inflight'] -= 1
            return call

    store = StoreProxy(backend.store)
    env = Envelope(sender, [addr(n) for n in rcpts])
    env.parse(ORIG_HEADERS + b'\r\n' + ORIG_BODY)
    env.client = {'name': 'client.example', 'ip': '10.0.0.1'}
    env.receiver = 'rcv.example'
    env.timestamp = time.time()
    q = Queue(store, ScriptRelay(), backoff=backoff, bounce_factory=factory, bounce_queue=BounceQueue(),
              store_pool=store_pool, relay_pool=relay_pool)
    q.bounce_pool = Pool()
    q.start()
    try:
        # let the start-up load finish first: a load racing with enqueue is a schedule of its own (C03/C12)
        for _ in range(3):
            gevent.sleep(0.001)
        while state.get('store_inflight', 0):
            gevent.sleep(0.001)
        res = q.enqueue(env)
        sid = res[0][1]
        if isinstance(sid, BaseException):
            h.errors.append('enqueue: %r' % sid)
            return h, ('gone',)
        want = expect_rounds if expect_rounds is not None else len(script)
        t0 = time.time()
        stable = 0
        last = -1
        while time.time() - t0 < timeout:
            gevent.sleep(0.002)
            busy = state['inflight'] or len(q.bounce_pool) or state.get('store_inflight', 0)
            if state['calls'] == last and not busy:
                stable += 1
            else:
                stable = 0
                last = state['calls']
            if state['calls'] >= want and stable >= 5 and (state.get('parked') or stable >= 12):
                break
            if stable >= 25:       # nothing moves any more
                break
        q.bounce_pool.join(timeout=1)
        # final store content
        try:
            e2, att = backend.store.get(sid)
            final = ('alive', [unaddr(a) for a in e2.recipients], att)
        except (KeyError, OSError):
            final = ('gone',)
        except Exception as e:
            final = ('error', repr(e))
        return h, final
    finally:
        q.kill()


def run_history(backend, sender, factory_bounces, backoff_table, rcpts, outcomes, store_pool=None, relay_pool=None,
                headers_only=False, timeout=2.5, expect_rounds=None, store_fail=None):
    """Runs the history in its own greenlet under a hard time limit: a queue that blocks for ever (e.g. a bounded pool
    that is never released) is reported as ('hung', where) instead of stalling the check."""
    h = History()
    g = gevent.spawn(_run_history_body, h, backend, sender, factory_bounces, backoff_table, rcpts, outcomes,
                     store_pool, relay_pool, headers_only, timeout, expect_rounds, store_fail)
    g.join(timeout + 1.0)
    if not g.ready():
        g.kill(block=False)
        return h, ('hung', 'the history did not finish: enqueue or an attempt is blocked for ever')
    if not g.successful():
        return h, ('error', repr(g.exception))
    return g.value
