"""Runs the real slimta.smtp.server.Server over a scripted socket with a recording handler object whose methods apply
scripted verdicts, and renders the model driver's `server run` request for the same session. Shared by C07, C08, C09."""
import base64

from harness.core import hx, hxl
from harness.fakes.sock import ScriptSocket, WouldBlock


class FakeTlsSocket(ScriptSocket):
    """What `context.wrap_socket(sock, server_side=True)` returns in fake-TLS runs: the decrypted stream."""

    def unwrap(self):
        return self


class FakeContext(object):
    def __init__(self, streams, outer):
        self.streams = list(streams)
        self.outer = outer
        self.wrapped = 0

    def session_stats(self):
        return {}

    def wrap_socket(self, sock, server_side=False, server_hostname=None):
        # clear-text bytes still in flight are not part of the TLS channel
        self.outer['dropped'] = sock.unread() if hasattr(sock, 'unread') else b''
        self.wrapped += 1
        segs = self.streams.pop(0) if self.streams else []
        t = FakeTlsSocket(segs)
        t.sent = sock.sent          # replies keep going to the same log
        self.outer['tls_sock'] = t
        return t


def _patch_encrypted():
    import slimta.smtp.io as sio
    if not isinstance(sio.SSLSocket, tuple):
        sio.SSLSocket = (sio.SSLSocket, FakeTlsSocket)


class Handler(object):
    """Records every callback and applies the scripted verdict with the same index."""

    def __init__(self, verdicts, events):
        self.verdicts = verdicts
        self.events = events
        self.n = 0

    def _verdict(self, reply):
        k = self.n
        self.n += 1
        if k < len(self.verdicts) and self.verdicts[k] is not None:
            reply.code = str(self.verdicts[k])
            reply.message = 'verdict %d' % self.verdicts[k]

    def BANNER_(self, reply):
        self.events.append('cBANNER')
        self._verdict(reply)

    def EHLO(self, reply, ehlo_as):
        self.events.append('cEHLO:' + hx(ehlo_as.encode('utf-8')))
        self._verdict(reply)

    def HELO(self, reply, helo_as):
        self.events.append('cHELO:' + hx(helo_as.encode('utf-8')))
        self._verdict(reply)

    def STARTTLS(self, reply, extensions):
        self.events.append('cSTARTTLS')
        self._verdict(reply)

    def TLSHANDSHAKE(self):
        self.events.append('cTLS')

    def AUTH(self, reply, creds):
        def b(x):
            return hx((x or '').encode('utf-8'))
        self.events.append('cAUTH:%s:%s:%s' % (b(creds.authcid), b(getattr(creds, '_secret', getattr(creds, 'secret', None))), b(creds.authzid)))
        self._verdict(reply)

    @staticmethod
    def _params(params):
        if not params:
            return '-'
        return '+'.join(hx(k) + ('' if v is True else '~' + hx(v)) for k, v in params.items())

    def MAIL(self, reply, address, params):
        self.events.append('cMAIL:%s:%s' % (hx(address.encode('utf-8')), self._params(params)))
        self._verdict(reply)

    def RCPT(self, reply, address, params):
        self.events.append('cRCPT:%s:%s' % (hx(address.encode('utf-8')), self._params(params)))
        self._verdict(reply)

    def DATA(self, reply):
        self.events.append('cDATA')
        self._verdict(reply)

    def HAVE_DATA(self, reply, data, err):
        from slimta.smtp import MessageTooBig
        if isinstance(err, MessageTooBig):
            self.events.append('cHAVEDATA:toobig')
            self.n += 1
            reply.code = '552'
            reply.message = '5.3.4 Message exceeded size limit'
            return
        if err:
            raise err
        self.events.append('cHAVEDATA:' + hx(data))
        self._verdict(reply)

    def RSET(self, reply):
        self.events.append('cRSET')
        self._verdict(reply)

    def NOOP(self, reply):
        self.events.append('cNOOP')
        self._verdict(reply)

    def QUIT(self, reply):
        self.events.append('cQUIT')
        self._verdict(reply)

    def CLOSE(self, *args):
        self.events.append('cCLOSE')


class CustomHandler(Handler):
    """A handler object that also implements a command of its own (XPING): Server._command_custom hands it a reply
    (a copy of the stock 500) which it changes as any other callback does."""

    def XPING(self, reply, arg, server):
        self.events.append('cCUSTOM:%s:%s' % (hx(b'XPING'), '-' if arg is None else hx(arg)))
        self._verdict(reply)


def run_server(cfg, verdicts, buf0, segs, tls_streams=(), eof=False):
    """cfg: dict(starttls, auth, maxsize, immediate). Returns dict(events, ending, state, commands, dropped)."""
    from slimta.smtp.server import Server
    from slimta.smtp import ConnectionLost
    _patch_encrypted()
    events = []
    outer = {}
    sock = ScriptSocket(segs, eof=eof)
    ctx = FakeContext(tls_streams, outer) if (cfg['starttls'] or cfg.get('immediate')) else None
    h = CustomHandler(verdicts, events) if cfg.get('custom') else Handler(verdicts, events)
    srv = Server(sock, h, address=('127.0.0.1', 1234), auth=bool(cfg['auth']), context=ctx,
                 tls_immediately=bool(cfg.get('immediate')))
    if cfg.get('maxsize'):
        srv.extensions.add('SIZE', cfg['maxsize'])
    srv.io.recv_buffer = buf0
    real_send_reply = srv.io.send_reply
    counters = {'commands': 0}

    def send_reply(reply):
        events.append('r' + str(reply.code))
        return real_send_reply(reply)
    srv.io.send_reply = send_reply
    real_recv_command = srv.io.recv_command

    def recv_command():
        r = real_recv_command()
        counters['commands'] += 1
        return r
    srv.io.recv_command = recv_command
    try:
        srv.handle()
        ending = 'closed'
    except WouldBlock:
        ending = 'wouldBlock'
    except ConnectionLost:
        ending = 'connectionLost'
    except Exception as e:
        ending = 'aborted'
        outer['exc'] = repr(e)
    cur = outer.get('tls_sock', sock)
    rest = srv.io.recv_buffer + cur.unread()

    def tri(x):
        return 'N' if x is None else 'T' if x else 'F'
    state = 'mail=%s rcpt=%s ehlo=%s authed=%s' % (tri(srv.have_mailfrom), tri(srv.have_rcptto),
                                                    hx(srv.ehlo_as.encode('utf-8')) if srv.ehlo_as else '-',
                                                    'true' if srv.authed else 'false')
    return {'events': events, 'ending': ending, 'state': state, 'rest': rest, 'commands': counters['commands'],
            'dropped': outer.get('dropped'), 'exc': outer.get('exc'), 'sent': b''.join(sock.sent)}


def b64_table(lines):
    """Oracle tables for the AUTH exchange: b64decode of candidate response lines, pysasl's view of PLAIN blobs."""
    import binascii
    b64 = []
    plain = []
    seen = set()
    for l in lines:
        if l in seen:
            continue
        seen.add(l)
        try:
            d = base64.b64decode(l)
        except (binascii.Error, ValueError):
            b64.append('%s=!' % hx(l))
            continue
        b64.append('%s=%s' % (hx(l), hx(d)))
        parts = d.split(b'\x00')
        ok = None
        if len(parts) == 3 and parts[1] and not d.endswith(b'\n'):
            try:
                z, c, s = (p.decode('utf-8') for p in parts)
                ok = '%s:%s:%s' % (hx(c.encode()), hx(s.encode()), hx((z or c).encode()))
            except UnicodeDecodeError:
                ok = 'unicode-error' 
        plain.append('%s=%s' % (hx(d), ok if ok else '!'))
    return ';'.join(b64) or '-', ';'.join(dict.fromkeys(plain)) or '-'


def model_request(cfg, verdicts, buf0, pieces, tls_streams, candidate_lines):
    b64t, plaint = b64_table(candidate_lines)
    imm = '1' if cfg.get('immediate') else '0'
    if cfg.get('custom'):
        imm += ':' + ','.join(hx(c) for c in cfg['custom'])
    return 'server run %d %d %s %s %s %s %s %s %s %s' % (
        1 if cfg['starttls'] else 0, 1 if cfg['auth'] else 0, cfg.get('maxsize') or '-', imm,
        ','.join('-' if v is None else str(v) for v in verdicts) or '-', b64t, plaint, hx(buf0), hxl(pieces),
        '/'.join(hxl(t) for t in tls_streams) or 'none')


def candidate_lines(stream_bytes):
    out = []
    for l in stream_bytes.split(b'\n'):
        l = l[:-1] if l.endswith(b'\r') else l
        out.append(l)
        sp = l.split(None, 2)
        if len(sp) == 3:
            out.append(sp[2].rstrip())
    return out
