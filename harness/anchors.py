"""Anchor fingerprints (DESIGN section 2): a normalised-AST hash (no comments, no positions, no docstrings) of every module of
/repo/slimta. A changed hash is NOT a violation. It is recorded in the evidence, and it makes the quick run of every property that
anchors the changed module (or imports it: the closure over `slimta.*` imports is taken) add its thorough generator under a time
cap — the model was last validated against other source text, so it is validated harder. On the unchanged tree nothing differs and
nothing is added."""
import ast
import hashlib
import json
import os

REPO = os.environ.get('VERIF_REPO', '/repo')
LOCK = os.path.join(os.path.dirname(os.path.abspath(__file__)), 'anchors.lock')


class _Strip(ast.NodeTransformer):
    def _body(self, node):
        self.generic_visit(node)
        b = getattr(node, 'body', None)
        if b and isinstance(b[0], ast.Expr) and isinstance(getattr(b[0], 'value', None), ast.Constant) and isinstance(b[0].value.value, str):
            node.body = b[1:] or [ast.Pass()]
        return node
    visit_Module = visit_FunctionDef = visit_AsyncFunctionDef = visit_ClassDef = _body


def fingerprint(path):
    try:
        tree = ast.parse(open(path, 'rb').read())
    except SyntaxError:
        return 'syntax-error'
    return hashlib.sha256(ast.dump(_Strip().visit(tree), include_attributes=False).encode()).hexdigest()[:16]


def modules():
    out = []
    base = os.path.join(REPO, 'slimta')
    for d, _, fs in os.walk(base):
        for f in fs:
            if f.endswith('.py'):
                out.append(os.path.relpath(os.path.join(d, f), REPO))
    return sorted(out)


def fingerprints():
    return dict((m, fingerprint(os.path.join(REPO, m))) for m in modules())


def _imports(path):
    """slimta modules a module imports (absolute and relative), as repo-relative paths."""
    try:
        tree = ast.parse(open(os.path.join(REPO, path), 'rb').read())
    except (SyntaxError, OSError):
        return set()
    pkg = os.path.dirname(path).replace('/', '.')
    names = set()
    for node in ast.walk(tree):
        if isinstance(node, ast.Import):
            names.update(a.name for a in node.names)
        elif isinstance(node, ast.ImportFrom):
            base = node.module or ''
            if node.level:
                parts = pkg.split('.')
                parts = parts[:len(parts) - (node.level - 1)] if node.level > 1 else parts
                base = '.'.join(parts + ([base] if base else []))
            names.add(base)
            names.update(base + '.' + a.name for a in node.names)
    out = set()
    for n in names:
        if not n.startswith('slimta'):
            continue
        p = n.replace('.', '/')
        for cand in (p + '.py', p + '/__init__.py'):
            if os.path.exists(os.path.join(REPO, cand)):
                out.add(cand)
    return out


def changed_for(prop_files):
    """(changed modules relevant to a property, all changed modules). Relevant = anchored by the property or imported,
    transitively, by a module it anchors."""
    try:
        lock = json.load(open(LOCK))
    except (OSError, ValueError):
        return [], []
    now = fingerprints()
    changed = sorted(m for m in set(lock) | set(now) if lock.get(m) != now.get(m))
    if not changed:
        return [], []
    seen, todo = set(), list(prop_files)
    while todo:
        m = todo.pop()
        if m in seen:
            continue
        seen.add(m)
        todo.extend(_imports(m) - seen)
    return [m for m in changed if m in seen], changed
