#!/venv/bin/python
"""Regenerates harness/anchors.lock: a normalised-AST fingerprint of every module of /repo/slimta (run after every commit in /repo,
i.e. whenever the models have been re-validated against the source as it stands)."""
import json, os, sys
sys.path.insert(0, os.path.dirname(os.path.dirname(os.path.abspath(__file__))))
from harness import anchors
lock = anchors.fingerprints()
json.dump(lock, open(anchors.LOCK, 'w'), indent=1, sort_keys=True)
print('anchors.lock: %d modules' % len(lock))
