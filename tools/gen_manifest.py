#!/usr/bin/env python3
"""Regenerates MANIFEST.json from the table below (run after adding a check)."""
import json, os
V = os.path.dirname(os.path.dirname(os.path.abspath(__file__)))
NOTE = ('Trusted: Lean 4.33 kernel; axioms propext/Classical.choice/Quot.sound only (audited every run; no sorry, '
        'native_decide, bv_decide or own axioms); the hand-written Lean model is tied to /repo by the differential '
        'correspondence campaign of this check (real classes in-process vs the compiled model on the same inputs), '
        'so the harness (generators, scripted sockets/gates/fakes, canonicalisers) is trusted; gevent, CPython re/email/'
        'pickle, TLS and the kernel are modelled, not verified. ')
CLAIMED = {
 'C05': dict(
  text='Lean theorems over Model/Data.lean (DataSender/DataReader transliteration): for every message, every split into '
       'parts at line boundaries, every trailing byte string and every segmentation into recv() pieces the reader returns the '
       'normalised message and leaves exactly the trailing bytes (unbounded, by induction); the model is tied to the code on every '
       'run by an exhaustive differential campaign over {.,CR,LF,a}^<=7 x splits x trailing x segmentations plus random 8-bit messages, '
       'with the property itself monitored on the implementation.',
  ref='6/C05', technique='Lean 4 proof (induction over bytes/segments) + differential correspondence model vs real DataSender/DataReader'),
 'C17': dict(
  text='Lean theorems over Model/Reply.lean (IO.send_reply / IO.recv_reply / Reply transliteration): wire round trip with exact '
       'consumption for every code 1xx-5xx, every message and every pipelined successor under every segmentation; segmentation '
       'independence for every byte stream; BadReply for non-reply lines, mixed codes, invalid UTF-8 and codes outside 1xx-5xx; never a partial reply; '
       'ESC class = code class; the text a Reply shows (enhanced status code included) is a fixed point of the library\'s own reading of it '
       '(reply_text_fixed_point, for every code and every text that does not begin with white space). Tied to the code on every run by exhaustive token-sequence campaigns '
       '(texts x 7 codes, malformed lines) and op sequences on a Reply object (code / message / status-code-off in any order) against real Reply/IO over scripted sockets.',
  ref='6/C17', technique='Lean 4 proof (scan/append lemma, induction over lines and segments) + differential correspondence model vs real IO/Reply'),
 'C18': dict(
  text='Lean theorems over Model/Proxy.lean (proxyproto.py transliteration; a socket = any stream + any short-read pattern of '
       'recv_into): v1 exact parse and exact consumption for every grammar line, any payload, any short reads; v1 <= 107 bytes always; '
       'v2 exact (16+len consumed, LOCAL dropped, PROXY -> encoded address), v2 <= 16+declared always, v2 outcome a function of the byte '
       'stream only; auto-detection equals the right parser; v1 parser soundness (an accepted line is exactly 5 fields, digits-only ports '
       '<= 65535, resolver-accepted addresses) and completeness. inet_pton/inet_ntop are oracle parameters (universally quantified). '
       'Tied to the code by corruption/truncation/length/short-read campaigns against the real mix-ins.',
  ref='6/C18', technique='Lean 4 proof (read-loop invariants, well-founded induction) + differential correspondence model vs real proxyproto mix-ins'),
 'C20': dict(
  text='PARTIAL. Lean theorems over Model/Envelope.lean for slimta\'s own logic in Envelope.parse/flatten: for every well-formed header '
       'block (any number of lines, folded, LF/CRLF/mixed endings), every body byte string: the header/body boundary regex matches exactly '
       'the first blank line, the body is returned unchanged, the header block comes back with the same lines in the same order and CRLF '
       'endings, re-parsing the output is a fixed point; encode_7bit without encoder refuses exactly 8-bit bodies. CPython\'s email package '
       '(field parsing/regeneration, copy, pickle, base64/quoted-printable encoders, behaviour on arbitrary bytes) is modelled only on the '
       'well-formed domain and exercised, not proved: the campaign compares real Envelope parse/flatten/copy/pickle/re-parse/encode_7bit with the '
       'model and with the generator\'s own field list (header blocks without a blank line and bodies with DEL included).',
  ref='6/C20', technique='Lean 4 proof (regex-boundary lemma by induction over header lines) + differential correspondence vs real Envelope',
  note='Partial: the email package is trusted on the well-formed domain (validated by the campaign), not verified.'),
 'C16': dict(
  text='Lean theorems over Model/Policy.lean (Queue._run_policies with its identity-based remove/extend bookkeeping, split / domain split / '
       'forward / header policies, Envelope.copy): for every chain (any order/repetition, incl. a policy returning its input among its outputs), '
       'every recipient list and all regex/domain oracles: output recipient positions are a permutation of the input\'s (each exactly once), '
       'sender and body are conserved, all outputs are distinct objects, an unmatched recipient is unchanged, Date/Message-Id added only when '
       'absent, Received first. Proved by an invariant over the recursion (unbounded chains and lists). Tied to the code by an exhaustive campaign '
       'over all chains <= 3 (quick) / 4 (thorough) x recipient lists against the real policies, with aliasing probed on the real objects.',
  ref='6/C16', technique='Lean 4 proof (invariant over the policy recursion, counting argument) + differential correspondence vs real Queue._run_policies'),
 'C15': dict(
  text='Lean theorems over Model/Store.lean: the accumulating representation of disk/redis/cloud (indexes appended per round, replayed in order) '
       'refines the reference store (in-place deletion, = DictStorage) for EVERY operation sequence, any number of marking rounds; ids are fresh; '
       'an operation on one id leaves every other record untouched; a removed id stays absent under all later operations (dict, disk, cloud); '
       'the redis representation is modelled faithfully, including the known finding (update after remove recreates the hash), proved on a witness. '
       'The effect-level model of the disk backend (Model/DiskFS.lean, the one C04 cuts at every point) is proved to refine this store model: '
       'disk_step_refines / disk_refines_store (after every history of complete DiskStorage operations what a fresh DiskStorage recovers for an id is exactly '
       'the record the store model holds) and disk_get_is_reference_get (recipients with the delivered rounds replayed, attempt counter and due time '
       'recovered from the directories = those of the in-place reference store after the same operations; recoverable iff present). '
       'Tied to the code by op-sequence campaigns on the four real backends (real pyaio files, real redis-py against an in-process RESP server, '
       'CloudStorage over a fake object store; DictStorage over plain dicts and over two real shelves, the persistent configuration its documentation names), sequential and with overlapped operations on different ids.',
  ref='6/C15', technique='Lean 4 proof (simulation/refinement between store representations) + differential correspondence vs the four real backends',
  note='The redis server and the cloud object store are stand-ins written from the client library / aws.py source.'),
 'C13': dict(
  text='Lean theorems over Model/Attempt.lean (Queue._attempt / _handle_partial_relay / _retry_later / _perm_fail / _split_by_reply): for every '
       'list of per-recipient failures the bounces have pairwise different replies, every reply has its bounce, a bounce names only and at least one '
       'recipient that failed with its reply, and all failed recipients are named exactly once; for every attempt outcome the bounces name exactly '
       'the finally-failed recipients; a null-sender message (hence every bounce) never produces a bounce; a factory returning None produces none; over the composed queue machine (Model/QueueM.lean, see C01) under every interleaving: null_sender_no_bounce_interleaved, failed_are_bounced_interleaved, each_failed_recipient_bounced_once (over all bounces of a message a recipient that failed for good is named exactly once, anybody else never). '
       'The bytes of a bounce are inside the model too (Model/Bounce.lean: BytesFormat template scanning and substitution, Bounce._get_delivery_info / '
       '_get_substitution_table / _build_message, then Envelope.parse / flatten of C20): bounce_embeds_original (any templates: when the formatted header template begins with a '
       'well-formed header block, the bounce flattens to that block and a body = rest of the template ++ ORIGINAL HEADER DATA ++ ORIGINAL MESSAGE DATA (unless headers-only) ++ footer, byte for byte), '
       'default_bounce / default_bounce_quotes_reply / default_bounce_embeds (the default templates of slimta/bounce, for every sender and boundary without a line break, every recipient list, reply, '
       'client information and original message: To: the original sender, the recipients named, `code message` quoted, the original embedded unchanged). Tied to the code by building real Bounce objects '
       '(default and random custom templates as str / bytes class attributes, clients with and without name / ip / protocol, reply addresses as str / tuple / none, 8-bit and LF-only originals, headers-only) '
       'and comparing the bytes handed to Envelope.parse and the flattened result with the model; random templates through the real BytesFormat; the module-level default templates of the source are compared '
       'with the model\'s on every run. That the bounce is addressed to the original sender only and handed to bounce_queue.enqueue is checked on the real Bounce/Queue by the campaign; the real Queue is driven through failure histories and compared '
       'round by round with the model.',
  ref='6/C13', technique='Lean 4 proof (grouping lemmas, case analysis over attempt outcomes) + differential correspondence vs real Queue/Bounce histories'),
 'C03': dict(
  text='PARTIAL (storage calls atomic inside a section, spawns that may wait for a slot of a bounded pool, calm announcements). Over the composed queue machine (Model/QueueM.lean, see C01) for every interleaving: handoff_is_for_the_unsettled (whenever a step hands a message to the relay — enqueue\'s own hand-off or a _dequeue task, whatever caused it — the recipients of that attempt are exactly the outstanding ones and none of them was reported delivered or failed for good before) and one_attempt_in_flight_composed; handed_within_accepted (every hand-off ever made, of any message, was for recipients among those the message was accepted with) and restart_never_reattempts_delivered (C03 o C04: the machine started on what a fresh DiskStorage recovers — pickled recipients with the delivered rounds replayed — never hands anybody to the relay whom the storage showed as delivered before the crash). Sequential theorems over Model/Attempt.lean + Model/Store.lean: for every valid '
       'history of delivery attempts (any rounds, recipients, outcomes, backoff) a recipient reported delivered or permanently failed is in no '
       'later attempt; the next attempt is made for exactly the transiently refused recipients; the accumulating index representation of '
       'disk/redis/cloud agrees with the reference store over any number of marking rounds. The real Queue is driven through exhaustive '
       'per-recipient outcome tables (<=3 recipients x 3 outcomes x <=3 rounds, mapping and sequence forms) on all four backends and compared with '
       'the model round by round; overlapping attempts are monitored. Part 2: under every interleaving of the scheduler transition system '
       '(Model/Sched.lean, tied to the real Queue by C12\'s trace replay) the attempts in flight are pairwise different messages and a message in '
       'flight has neither a timetable entry nor a pending _dequeue task (one_attempt_in_flight_per_message).',
  ref='6/C03', technique='Lean 4 proof (conservation/counting invariant over attempt histories, store refinement) + differential correspondence vs real Queue on 4 backends',
  note='Partial: the interleaving theorem is about the scheduler model of C12 (bounded pools included) under the Calm assumption.'),
 'C01': dict(
  text='PARTIAL (calm environment of C12; storage calls atomic inside a section; bounded pools: the safety statements hold, the stall is a known finding; liveness is stated as: never without a next step). The ledger and the scheduler are ONE transition system now (Model/QueueM.lean: the scheduler state of Model/Sched.lean + what the storage holds for every message + every attempt\'s envelope + the verdict of _attempt + bounces + a ghost ledger; a step of it IS a step of the scheduler model, its two-phase attempt IS Attempt.attempt: step_sched, phases_eq_attempt). Over it, for every interleaving of enqueues, announcements, ticks, scheduler turns, _dequeue tasks, relay answers of any shape, backoff answers, re-queues, removals and flushes: one_disposition (every accepted recipient is counted exactly once in delivered / failed for good / outstanding, in every reachable state), accepted_never_lost (delivered, or failed and named in a bounce quoting its reply when a bounce is produced, or outstanding in a message that is still stored and handed off / in flight / finishing / dequeuing / in the timetable with the loop due to wake by its time), removed_means_final; attempt_numbers_count_up (the k-th hand-off of a message to the relay carries attempts = k: 0, 1, 2, ... oldest first, none skipped, none twice), stored_attempts_is_handoffs, attempts_need_backoff and attempts_bounded (in histories where _retry_later gets the backoff function\'s answer for the incremented counter a message is attempted for the a-th time only if the backoff function allowed it, so a backoff that gives up after N bounds the attempts on every message by N + 1 (after a restart on stored counters: by N + 1 - counter, attempts_bounded_after_restart) — with accepted_never_lost the measure under which every recipient reaches delivered or failed for good). The relay contract assumed there is met by the relay models (relay_contract_met, with C11\'s attempt_answers_everyone and sequence_complete). The sequential theorems over Model/Attempt.lean remain: for every attempt outcome and every history each accepted recipient '
       'is exactly one of delivered / failed for good / still stored; the message is removed only when nobody is outstanding; when the backoff '
       'returns None everybody outstanding is failed; failed recipients of a non-null-sender message are named in a bounce (with C13). The real Queue '
       'is driven through seeded histories mixing None/Reply, mapping, sequence, Transient, Permanent and unexpected exceptions on dict, disk, redis and '
       'cloud backends and compared with the model; the ledger is monitored on the implementation. Known finding: bounded pools can stall the queue. '
       'The composed machine is tied to the code by the scheduler runs of C12 (every label enabled; scheduler state, stored recipients and attempt counters equal at every observation; hand-offs, bounces asked for and recipients reported delivered per message at the end), which this check runs too, with the ledger monitored on what relay, bounce factory and storage saw. Scheduling half (accepted_never_unscheduled, from C12): in every reachable state of the scheduler transition system a stored message the queue '
       'knows is being handed off, in flight, finishing, dequeuing, or in the timetable with the loop due to wake by its time; a due entry enables the '
       'scheduler turn that dispatches it.',
  ref='6/C01', technique='Lean 4 proof (ledger conservation by counting, induction over histories) + differential correspondence vs real Queue on 4 backends',
  note='Partial: Calm assumption and relay contract (per-recipient results answer for exactly the recipients handed over) as explicit hypotheses; storage calls atomic inside a section; pool-exhaustion stall is a known finding; eventual delivery is stated as a safety property (never without an enabled next step).'),
 'C04': dict(
  text='PARTIAL (process death; POSIX rename/unlink atomicity and pickle integrity assumed). Lean theorems over Model/DiskFS.lean (every DiskStorage '
       'operation = a list of atomic file-system effects: temp-file creation, chunk writes, rename, unlink; the process may die after any prefix): '
       'a meta update cut anywhere leaves the old or the new meta and the envelope untouched; an operation on another message (writes, removals, '
       'orphan and temp files included) cut anywhere, and any interleaving of such effects, never changes what is recovered for a message; a write is '
       'visible only complete; a removal in progress hides the message at once. Over histories: acknowledged_message_survives (once the write '
       'of a message has completed, after ANY number of completed further operations - anything about other messages; due times, attempt '
       'counters, delivered marks of this one - and with the process dying n effects into yet another one, for every n, a fresh DiskStorage '
       'recovers the message with the envelope that was written and a meta that is exactly what the completed operations made of it, or that '
       'with the interrupted operation applied too); metaAfter_attempts (the recovered attempt counter counts exactly the completed increments); restarted_queue_schedules_acknowledged (C04 o C12: a queue '
       'started on what a fresh DiskStorage loads from the directories after the crash finds the message, its announcement is a step of the scheduler '
       'model of C12, and after it the message is known, stored and in the timetable with the loop due to wake); restarted_queue_never_loses (C04 o C01: the '
       'composed queue machine started on the recovered ids, due times and not-yet-delivered recipients keeps every recipient the acknowledged message still '
       'lists in exactly one of delivered / failed for good / outstanding with a next step, in every reachable state); restarted_queue_continues_the_count (the '
       'hand-offs of a recovered message carry the recovered attempt counter, then counter + 1, ...). At every crash snapshot the campaign also starts a real Queue on the '
       'directories and requires every recovered message to be handed to the relay once, with the stored recipients and counter. Tied to the code by interposing os.rename/os.remove/mkstemp/chunk '
       'writes of the real DiskStorage (real pyaio), copying the directories at EVERY effect boundary of every operation (also with two operations '
       'running concurrently) and reopening each copy with a fresh DiskStorage (load + get), compared with the model and monitored directly.',
  ref='6/C04', technique='Lean 4 proof (file-system effect prefixes, frame lemmas) + crash-point enumeration of the real DiskStorage vs the model',
  note='Partial: power loss / fsync ordering is out of scope (the property says the process dies); kernel atomicity assumed.'),
 'C07': dict(
  text='Lean theorems over Model/Server.lean (Server.handle / _command_* transliteration), for every validator behaviour, state and command '
       'line: a command produces exactly one final reply (none yet while an AUTH exchange is pending), either one of the server\'s own error '
       'replies with no callback or a callback admissible in the current state (MAIL only after EHLO/HELO and with no sender open, RCPT only with '
       'an accepted sender, DATA only with sender and recipient, EHLO/HELO only after the greeting) followed by its reply; a 221/421 reply always '
       'closes with CLOSE last; sender/recipients are forgotten after accepted RSET, EHLO/HELO, every message and a TLS handshake; no command but '
       'MAIL/RCPT can raise the sender/recipient flag. Tied to the code by running the real Server with a recording handler over all sequences of '
       'depth 2 (quick) / 3 (thorough) after 8 state-reaching prefixes over a 38-line command alphabet x verdicts x 4 extension configurations. SmtpSession\'s own copy of the transaction (session mode of the model: RSET / NOOP / QUIT never see a verdict): EnvInv — while the server holds an accepted sender the session holds an envelope, while it holds an accepted recipient the envelope has one — through every command, message, handshake, AUTH exchange, the whole loop and a whole session (envInv_step / envInv_loop / envInv_serve), so the asserts of SmtpSession.RCPT / HAVE_DATA never fire and no envelope reaches the queue without a recipient (rcpt_callback_has_envelope, data_accepted_has_envelope); tied by running the real-SmtpEdge sessions of the campaign through the model with the verdicts the validators really gave (reply codes and the final SmtpSession.envelope compared).',
  ref='6/C07', technique='Lean 4 proof (case analysis of the command step function, shape predicate) + differential correspondence vs real smtp.Server'),
 'C09': dict(
  text='Lean theorems over Model/Server.lean + Model/Data.lean: for every validator behaviour, AUTH oracle and server state, two connections that '
       'deliver the same bytes (any recv_buffer prefix, any cuts: inside commands, message data or AUTH responses) yield the same replies, the '
       'same callbacks with the same arguments (message content included), the same ending, final state and unread bytes; lifted to whole sessions '
       'with STARTTLS switch-over; uses C05\'s reader theorem incl. the size limit. Tied to the code by delivering generated session streams '
       '(several transactions, command-looking bodies, lone dots, bodies around the SIZE limit, pipelining past DATA) under 8 segmentations to the '
       'real Server: all traces must agree with each other and with the model.',
  ref='6/C09', technique='Lean 4 proof (stream-equivalence relation preserved by every reader; induction on fuel) + metamorphic/differential correspondence vs real smtp.Server'),
 'C08': dict(
  text='PARTIAL (TLS is an opaque pipe that starts empty; pysasl credential decoding is an oracle). Lean theorems over Model/Server.lean: after an '
       'accepted STARTTLS the session continues on the TLS stream with an EMPTY receive buffer in the just-greeted state (no EHLO identity, '
       'sender, recipient or envelope; STARTTLS not offered; encrypted) and the continuation does not mention the clear-text leftovers at all; '
       'the SASL exchange is entered only when AUTH is offered, EHLO accepted, not yet authenticated, no transaction open; an AUTH callback '
       'needs an encrypted session and PLAIN/LOGIN; malformed AUTH lines and bad/cancelled responses never end the session; the authed flag '
       'rises only with a 235; on the client side (Model/Client.lean starttls): whatever bytes follow the server\'s 220 in clear text (forged replies, half a reply), the client\'s state after the handshake is the same: it reads from the TLS stream with an empty buffer (client_handshake_discards_cleartext, on top of C17\'s exact-consumption theorem). Tied to the code by server sessions (5 prefixes x 9 injected byte strings x 10 TLS scripts, AUTH shapes x TLS modes x '
       'positions x verdicts) and client STARTTLS runs over a stand-in TLS layer (compared with the client model), plus real TLS runs on a socketpair.',
  ref='6/C08', technique='Lean 4 proof (case analysis of STARTTLS/AUTH steps) + differential correspondence vs real smtp.Server/Client (stand-in and real TLS)',
  note='Partial: TLS channel and pysasl are outside the model.'),
 'C10': dict(
  text='Lean theorems over Model/Client.lean (reply queue of Client/LmtpClient) on top of C17\'s reply round-trip theorem: for every reply '
       'script, every sequence of method calls (SMTP/LMTP, PIPELINING or not), every surplus of bytes and every segmentation of the reply '
       'stream, each filled Reply object holds the code and CRLF-normalised text of the script\'s reply at its own position (invariant: queue = '
       'consecutive slot numbers, connection aligned with the unread part of the script); LMTP send_data creates one consecutive slot per '
       'recipient whose RCPT reply is 2xx. Tied to the code by all method sequences up to length 4 (quick) / 5 (thorough) x both protocols x '
       'pipelining on/off with scripts whose texts name their position and two surplus replies (over-reading is observable), seeded longer '
       'sequences and segmentations, against the real Client/LmtpClient.',
  ref='6/C10', technique='Lean 4 proof (FIFO/alignment invariant over method sequences, uses the C17 theorem) + differential correspondence vs real smtp.Client/LmtpClient'),
 'C11': dict(
  text='PARTIAL (connection reuse is exercised by the correspondence campaign and tied to the command model only; timeouts are scripted as an outcome; the resolver is a stub). '
       'Lean theorems over Model/Relay.lean (SmtpRelayClient._run/_handshake/_deliver/_check_replies/_fail, LmtpRelayClient, '
       'SmtpRelayError.factory, PipeRelay and HttpRelay result classification), for every downstream script: a recipient is reported delivered '
       'only if the connection was made, the handshake completed and the script gave well-formed non-error replies to MAIL, to that RCPT, to DATA '
       'and to the message data (LMTP: to the end-of-data reply that belongs to that recipient, the k-th for k accepted recipients before it); '
       'a failure of the whole message never yields a success, and after an accepted MAIL a refused recipient keeps the class of its own reply through it '
       '(checkReplies_keeps_own, deliver_keeps_own_class; when MAIL itself is refused _fail raises its class for everybody if the pipelined RCPT replies are all of one kind: the model is the code\'s kinds test, fail_sender_refused_example); handshake/read failures are failure '
       'classes; pipe: success only on exit status 0 (per recipient / first process); HTTP: success only on a 2xx status, refused/timeout are '
       'transient; MX relay (Model/Mx.lean): the host list is the resolver\'s answer sorted by priority (a permutation of it), attempt n goes to '
       'record n mod k so the first attempt uses a best-priority host and every host gets its turn, neither MX nor A records / an empty answer / a '
       'recipient without a domain is a permanent failure, a resolver error (also on the A fallback) a transient one. Tied to the code by running the real SmtpRelayClient/LmtpRelayClient/StaticSmtpRelay/MxSmtpRelay against a scripted peer on a socketpair '
       '(stage x outcome x pipelining x TLS x AUTH x 1..3 recipients), PipeRelay/MaildropRelay/DovecotLdaRelay against stub programs, HttpRelay '
       'against a loopback HTTP peer and MxSmtpRelay with a stub resolver over every pair of MX / A answers x attempt numbers and seeded MX lists with ties. Also: every relay answers for every recipient it was handed (attempt_answers_everyone, pipe_answers_everyone, http_answers_everyone — the contract C01\'s composed theorems assume); and the result model agrees with the command model of Model/RelaySession.lean (delivered_means_content_was_sent: a recipient is reported delivered only if, on the same answers, the message data was written after MAIL / RCPT / DATA were answered and was accepted, with and without PIPELINING). The expiring cache of MxRecord is in the model (cacheGet / routeCached over a virtual clock): a fresh entry is served without asking the resolver; an expired one is never served (what get gives is what a brand-new record would give); an answer is kept exactly until the expiration computed from its times to live; a resolver error and a no-usable-record answer are not remembered (cache_fresh_no_query, cache_expired_asks_again, kept_until_ttl, resolver_error_not_cached, negative_answer_not_cached); tied by histories of attempts on one MxSmtpRelay under a virtual clock with changing answers, resolver queries counted.',
  ref='6/C11', technique='Lean 4 proof (case analysis of the attempt function over downstream scripts, induction on the LMTP merge) + differential correspondence vs real relay clients on scripted peers',
  note='Partial: DNS caching, connection reuse and real timeouts are covered by the correspondence campaign, not by theorems.'),
 'C19': dict(
  text='PARTIAL (liveness is a termination theorem over the pool\'s own steps: idle timers and connection faults between messages are environment events and must be finitely many; '
       'the pool model and the command model of a reused connection are two models, not one). Lean theorems over '
       'Model/Pool.lean: BlockingDeque keeps semaphore = length under every sequence of its 8 operations, a pop never finds the deque empty behind '
       'the semaphore and blocks exactly when it is empty; the pool transition system (labels: attempt, poll, wake, idle expiry, finish, fail, '
       're-queue, connection drop, link callback; SMTP-style exiting clients and HTTP-style persistent clients) keeps for every interleaving: '
       'clients <= pool_size; every attempted request is in exactly one place (queue once / held by exactly one client / answered once), nothing '
       'unattempted is anywhere; a waiting request always has a client in the pool and an enabled pool step (no stranding); a busy client can '
       'always complete; a measure strictly decreases on every step of the pool itself (poll, wake, finish, fail, re-queue by a reused connection, '
       'link callback incl. respawn), so every schedule of those steps is finite (progress_runs_are_bounded), and a state with none of them '
       'enabled has an empty queue, no busy client and every attempted request answered (stuck_means_all_answered). Tied to the code by replaying, label by label, the traces of the real RelayPool + SmtpRelayClient (scripted gated SMTP '
       'peers on socketpairs) and HttpRelay + HttpRelayClient (gated loopback HTTP peer) through the model: every observed label must be '
       'enabled and the idle flags, queue and answered set must agree at every observation point; BlockingDeque by random operation sequences. '
       'What is on a reused connection (Model/RelaySession.lean: the commands SmtpRelayClient / LmtpRelayClient write for one delivery and for several over one connection, for every number of recipients and every peer behaviour, PIPELINING or not): failed_transaction_is_reset (a delivery that leaves the connection alive ended with RSET, or with message data that was accepted), one_message_at_a_time (commands of different messages never interleave; every MAIL but the first comes directly after RSET or message data), content_only_after_acceptance (message data is written only after the sender, a recipient and DATA were accepted); tied to the code by comparing the commands each scripted peer of the C11 campaign saw with the model fed the same answers (incl. two messages per connection).',
  ref='6/C19', technique='Lean 4 proof (inductive invariant of the pool transition system over all interleavings; BlockingDeque invariant) + trace-replay correspondence vs real RelayPool/SmtpRelayClient/HttpRelayClient',
  note='Partial: termination assumes finitely many idle-timer and connection-fault events; per-connection protocol discipline is monitored, not proved.'),
 'C12': dict(
  text='PARTIAL (storage calls are atomic inside a section except inside _retry_later, which is modelled in two steps around its yielding storage calls; bounded pools are inside the model for the safety statements: a spawn that waits for a pool slot is a task that stays pending longer, and the scheduler loop, the one section such a wait splits, is two labels (sched = wake up + _check_ready, sleep = _wait_ready) with everything else allowed in between; that flush() waits for the lock while the loop is held up in a spawn, and the pool-exhaustion stall (known finding of C01), are outside; environment assumption Calm: the storage does not announce a '
       'message while enqueue() is between the write and the hand-off of that message or while a _dequeue task for it is pending — without it '
       'the property is false of model and code: theorem never_early_needs_calm, known finding). Lean theorems over Model/Sched.lean for every '
       'interleaving of {enqueue write / hand-off, announce (load, wait), tick, scheduler turn in two steps (sched / sleep), _dequeue, relay outcome, '
       '_retry_later in two steps (due time stored / message released) with any backoff answer incl. 0 and None, stale announcements of known messages, _remove_stored, flush in two steps (poke = wake.set/clear, flush = the cut under the lock)}: one inductive invariant (16 clauses: id sets = ids of the '
       'timetable, entries carry the stored timestamp, active ids have neither entry nor task, timetable sorted, scheduler timer at or before '
       'every entry unless flagged, ...) gives never_early (no hand-off that no flush asked for before the stored due time), due_is_dispatched '
       '(a due entry enables the scheduler turn, which creates its _dequeue task; a loop in the middle of a turn finishes it without going to sleep), never_forgotten (every known stored message is being handed '
       'off, in flight, finishing, dequeuing, or in the timetable with the loop due to wake by then), flush_returns_and_dispatches (flush is one '
       'always-enabled step; every waiting message gets a task; id set emptied), timetable_ids_exact, one_attempt_in_flight. Tied to the code by '
       'replaying, label by label, traces of the real Queue (scheduler started, DictStorage, virtual clock, held relay outcomes, wait() fed by '
       'the harness, holds on store.get / store.write) through the model: every label enabled; now, timetable, id sets, stored timestamps, wake '
       'flag and scheduler timer equal at every observation point, with unbounded and with bounded store/relay pools (spawns held up on a full pool included). The same traces, with the relay\'s full answers (per-recipient verdicts in mapping / reversed mapping / sequence form, exceptions), are replayed through the composed machine of C01 (Model/QueueM.lean) as long as the run is calm.',
  ref='6/C12', technique='Lean 4 proof (inductive invariant of the scheduler transition system over all interleavings, virtual time) + trace-replay correspondence vs real slimta.queue.Queue under a virtual clock',
  note='Partial: storage calls atomic inside a section (except _retry_later); Calm environment assumption (negation witnessed, known finding); flush waiting for the lock under saturated pools not modelled.'),
 'C02': dict(
  text='Lean theorems over Model/Edge.lean (SmtpSession.HAVE_DATA reply choice, WsgiEdge._enqueue_envelope + _build_http_response, '
       'Queue.enqueue result construction, ProxyQueue.enqueue), for every list of enqueue results and every vector of write outcomes / relay '
       'result, under the stated assumption that error objects carry 4xx/5xx replies: a 2xx SMTP reply / 2xx HTTP status implies every result is '
       'an id, hence every write succeeded (Queue) / the relay delivered to every recipient (ProxyQueue); any failed write or relay yields a '
       '4xx/5xx reply and HTTP status; another exception yields 421 / 500; in the event order of Queue.enqueue the reply is enabled only when no '
       'write is pending and every one of the n writes has its result. One enqueue call end to end (Model/Ingress.lean = Policy.runPolicies of C16 + the '
       'write outcomes + the reply choice + the labels of the composed queue machine Model/QueueM.lean of C01/C12): '
       'ack_means_custody_of_every_recipient (every policy chain, envelope, vector of write outcomes, and every history of the queue machine in '
       'which the writes of the call have happened, whatever else happened before, between and after: after a 2xx every recipient of the message '
       'as the edge received it belongs to a message the storage took in this call, known to the machine with exactly the recipients of one of '
       'the envelopes the policies produced; no_recipient_in_two_envelopes) and acknowledged_recipient_never_lost (C02 o C16 o C01: from then on the '
       'recipient is counted in exactly one of delivered / failed for good (and bounced) / outstanding with a next step); '
       'proxy_hop_ack_means_next_hop_accepted (C02 o C11: edge -> ProxyQueue -> SMTP relay -> next hop: for every next-hop script a 2xx of either '
       'edge implies connection, handshake, and non-error replies to MAIL, every RCPT, DATA and the message data; tied by 200 / 3000 of C11\'s '
       'downstream scripts behind real StaticSmtpRelay / StaticLmtpRelay + ProxyQueue + edge); http_hop_delivered_means_custody / '
       'http_hop_failure_class (C11 o C02: HttpRelay -> WsgiEdge -> Queue: delivered only with every envelope written on the receiving host; a 4xx QueueError '
       'stays a transient relay failure, a 5xx a permanent one, an exception a transient one; tied by a real HttpRelay against a real WsgiEdge on loopback over a failing store); smtp_hop_delivered_means_custody (the same for '
       'StaticSmtpRelay -> SmtpEdge -> Queue, tied by the real three over a socketpair); delivered_upstream_never_lost_downstream (the chain across '
       'two hosts: what host A\'s relay reports delivered is, on host B, delivered / failed-and-bounced / outstanding with a next step, in every later state). Tied to the code by the real SmtpEdge (client socket on a socketpair), '
       'WsgiEdge (WSGI call and pywsgi on loopback), Queue + RecipientDomainSplit over a store whose k-th write fails or is held, and ProxyQueue '
       'over scripted relay results: all outcome vectors for n <= 3, storage contents read at the instant the reply arrives, reply absent while a '
       'write is held; and 400 (thorough 6000) random enqueue calls through a real edge into a real Queue with chains of the built-in policies, '
       'failing writes and a relay that keeps attempts in flight, compared with the composition: reply, envelopes, stored recipients and attempts per id, '
       'hand-offs to the relay in order, active ids.',
  ref='6/C02', technique='Lean 4 proof (case analysis of the reply choice over arbitrary result lists; invariant of the enqueue event order) + differential correspondence vs real SmtpEdge/WsgiEdge/Queue/ProxyQueue'),
 'C06': dict(
  text='PARTIAL (the SMTP hop is one end-to-end theorem about the client\'s bytes run through the server\'s command loop with accepting validators; the HTTP hop is one end-to-end theorem over the header list as the WSGI server presents it (http.client / pywsgi framing itself is modelled, not verified); TLS and '
       'the email package are outside the model as in C08/C20; Python\'s lenient base64 decoder is modelled on encoder output only). Lean theorems: '
       'the MAIL / RCPT command line Client.mailfrom / rcptto build for any clean address (every \'>\' inside a double-quoted run, quotes balanced, '
       'backslash escapes honoured, no line break; with or without SIZE) is parsed by the server model (parseCommand, matchPrefix, splitAddr of '
       'Model/Server.lean, the model tied to the real Server by C07/C09) into exactly that address and the parameter text; an EHLO extension line '
       'built by Extensions.build_string is parsed back by parse_string into the same name and parameter; base64 decoding inverts encoding for every byte string; the '
       'recipients of the HTTP transport (one base64 header per recipient, joined with commas by the WSGI server, split on \\s*[,;]\\s*) come back as the same '
       'byte strings in the same order; the reply code the HTTP edge writes into X-Smtp-Reply is the code the relay reads, whatever the reply text and command are (http_reply_code_preserved; header building as wsgiref does it, quoting included). End to end over SMTP (hop_delivers, session_delivers, session_delivers_any_segmentation): for every clean UTF-8 sender, every non-empty list of such recipients, every message cut into parts at line boundaries and within the SIZE limit, any number of messages on one connection and any segmentation of the bytes, the server\'s handlers see exactly that sender, those recipients in order and the CRLF-terminated message, each command is answered 250 / 354, and the session continues between transactions with exactly the bytes that followed (uses C05\'s reader theorem and C09\'s segmentation theorem). Tied to the code by real hops: StaticSmtpRelay -> '
       'socketpair -> SmtpEdge, HttpRelay -> loopback pywsgi -> WsgiEdge, StaticLmtpRelay -> recording LMTP peer, over generated envelopes (null '
       'sender, quoted / escaped / UTF-8 local parts, 1..20 recipients, C20 contents) x server configurations (PIPELINING / 8BITMIME / SMTPUTF8 / SIZE, '
       'EHLO 500 -> HELO, queue verdicts, two messages per connection), wire bytes tapped and compared with the model line by line and as whole transactions (hopBytes, with the parts the relay client handed to Client.send_data), End to end over HTTP (http_hop_delivers, Model/HttpHop.lean): for every EHLO string, sender (null sender included), list of non-empty recipients and message data, the request HttpRelayClient writes (Content-Length = str(len), X-Ehlo, base64 sender, one base64 X-Envelope-Recipient each), with equally named headers joined by a comma as WSGI does, is read by WsgiEdge._get_envelope as exactly that EHLO string, sender, recipients in order and data cut at the announced length (int(str(n)) = n included: parse_decimal). Tied to the code request by request: the environ the real pywsgi server hands the real WsgiEdge and the envelope the edge builds are compared with the model\'s environ and edgeEnvelope; plus unit differentials (extension lines with empty parameters and in the server\'s letter case, base64, header splitting, X-Smtp-Reply) and requests the relay would not write against the real WsgiEdge called as a WSGI application (no recipient header, no X-Ehlo header, Content-Length shorter than the body).',
  ref='6/C06', technique='Lean 4 proof (round-trip theorems by induction over the scanners; base64 by arithmetic) + differential / end-to-end correspondence vs real relay clients and edges',
  note='Partial: per-leg theorems composed informally; TLS, email package and lenient base64 decoding outside the model.'),
 'C14': dict(
  text='PARTIAL (wall-clock behaviour and gevent\'s timer are runtime facts the model cannot exhibit; blocking sends to a peer that never reads are '
       'not modelled; the theorems are about scope structure and arithmetic). Lean theorems over Model/Timeouts.lean for every peer behaviour '
       '(any number of pieces, any gaps, pieces that never come): a wait inside a `with Timeout` scope lasts at most the scope\'s limit however the '
       'bytes trickle (the data timeout is cumulative over the DATA phase, the command timeout over the assembly of a line); a sequence of scoped waits '
       'never hangs, ends within the sum of the limits, and when it is cut the time since the last completed step is exactly the limit of the step '
       'that was cut; every blocking step in the code\'s table — server: command, DATA phase, AUTH response, both TLS handshakes, close; relay: '
       'connect, immediate TLS, banner, EHLO/HELO, STARTTLS incl. handshake, AUTH, MAIL, RCPT, DATA, message data, RSET, QUIT, close — has a scope. '
       'The table is what the correspondence validates, in two ways: it is extracted from the current source on every run (harness/scopes.py walks the AST of server.py, edge/smtp.py, relay/smtp/client.py, lmtpclient.py, pipe.py and http.py and reports, for every call that can block on the peer, the timeout attribute of the innermost enclosing `with Timeout(...)` / start-cancel scope, or `unscoped`) and must equal the model\'s table (`timeouts table`; all_stages_listed shows it lists every stage); and by wall-clock runs: real SmtpEdge sessions (incl. real TLS) against a client stalling / trickling at 16 points, '
       'real StaticSmtpRelay / StaticLmtpRelay attempts against a peer stalling at 15 stages x PIPELINING x SMTP/LMTP, PipeRelay and HttpRelay '
       'against a program / server that never answers, with 80 / 200 ms timeouts: each run must end where the model says, not before 0.7x the '
       'limit, with a 421 / a transient failure, and never be blocked at the 3 s watchdog; steady_but_slow_is_cut (pieces each within the limit, the whole over it: cut at the limit) is run as such: a complete command / message in pieces a third / a quarter of the timeout apart must be cut, not answered.',
  ref='6/C14', technique='Lean 4 proof (arithmetic of timeout scopes over arbitrary peer behaviours; case analysis of the scope table) + wall-clock correspondence vs real SmtpEdge / relay clients against stalling peers',
  note='Partial: real time and gevent timers are outside the model.'),
}
def main():
    props = [json.loads(l) for l in open(os.path.join(V, 'properties.jsonl'))]
    checks, na = [], []
    for p in props:
        i = p['id']
        if i in CLAIMED:
            c = CLAIMED[i]
            checks.append({
                'property_id': i,
                'quick_cmd': './check %s --tier quick' % i,
                'thorough_cmd': './check %s --tier thorough' % i,
                'evidence_file': 'evidence/%s.json' % i,
                'replay_cmd_template': './check %s --replay {path}' % i,
                'engine': 'lean4-proof+correspondence',
                'level_claimed': {'category': 'proof', 'text': c['text'], 'design_ref': 'DESIGN.md section ' + c['ref']},
                'level_note': NOTE + c.get('note', ''),
                'technique': c['technique'],
            })
        else:
            na.append({'property_id': i, 'reason': 'check not built yet in this session (work in progress; see DESIGN.md section 6 for the planned Lean model and theorems)'})
    m = {
        'version': 1,
        'setup_cmd': './setup.sh',
        'hooks': {'guard': 'SLIMTA_VERIF', 'enable': 'no source hooks: all instrumentation is installed from outside the package by harness/ (SLIMTA_VERIF=1 is exported by ./check for uniformity)',
                  'baseline_off_cmd': 'cd /repo && env -u SLIMTA_VERIF /venv/bin/python -m pytest -ra -q -p no:cacheprovider --timeout=900 --continue-on-collection-errors',
                  'source_commits': [], 'add_only': True},
        'engines': [{'name': 'lean4-proof+correspondence', 'path': 'lean/ + harness/',
                     'serves_properties': sorted(CLAIMED),
                     'kind_free_text': 'Lean 4 theorems about a hand-written executable model (lean/Model, lean/Proofs) + a native model driver and a Python differential harness that runs model and real code on the same inputs'}],
        'checks': checks,
        'not_applicable': na,
        'notes': 'See DESIGN.md. known_findings.json lists genuine defects (fixed / known).',
    }
    json.dump(m, open(os.path.join(V, 'MANIFEST.json'), 'w'), indent=1)
    print('claimed', len(checks), 'not_applicable', len(na))
if __name__ == '__main__':
    main()
