#!/bin/sh
# Runs every claimed check (quick tier unless $1 is given) and prints one line per property.
cd "$(dirname "$0")/.." || exit 2
tier=${1:-quick}
fail=0
for p in $(python3 -c "import json;print(' '.join(c['property_id'] for c in json.load(open('MANIFEST.json'))['checks']))"); do
  out=$(./check "$p" --tier "$tier" 2>&1); rc=$?
  echo "$p rc=$rc $(echo "$out" | grep -v '^KNOWN' | tail -1)"
  [ $rc -ne 0 ] && fail=1
done
exit $fail
