#!/usr/bin/env python3
"""Regenerates the data-driven tables of DESIGN.md (between the AUTOGEN markers) from known_findings.json, evidence/*.json,
seeded/*/meta.json, lean/Proofs/*.lean and /repo's git log."""
import glob, json, os, re, subprocess
V = os.path.dirname(os.path.dirname(os.path.abspath(__file__)))

def theorems(path):
    src = open(path).read()
    return re.findall(r'^theorem\s+([\w\.\'\?!]+)', src, re.M)

def table_props():
    rows = ['| prop | level | property theorems (lean/Proofs/Cxx.lean) | quick campaign (last run) | known findings printed |', '|---|---|---|---|---|']
    man = json.load(open(os.path.join(V, 'MANIFEST.json')))
    for c in man['checks']:
        p = c['property_id']
        th = theorems(os.path.join(V, 'lean/Proofs/%s.lean' % p))
        ev = {}
        try:
            ev = json.load(open(os.path.join(V, 'evidence/%s.json' % p)))
        except Exception:
            pass
        cov = ev.get('coverage', {})
        partial = 'partial' if c['level_claimed']['text'].startswith('PARTIAL') else 'full'
        camp = '%s evaluations, %s distinct' % (cov.get('evaluations', ev.get('evaluations', '?')), cov.get('distinct_nontrivial', ev.get('distinct_nontrivial', '?')))
        kf = len([k for k in json.load(open(os.path.join(V, 'known_findings.json')))['findings'] if k['property'] == p and k['status'] == 'known'])
        rows.append('| %s | proof (%s) | %d: %s | %s | %d |' % (p, partial, len(th), ', '.join('`%s`' % t for t in th[:6]) + (' …' if len(th) > 6 else ''), camp, kf))
    return '\n'.join(rows)

def table_findings():
    kf = json.load(open(os.path.join(V, 'known_findings.json')))['findings']
    rows = ['| property | status | commit | monitor signature | what failed |', '|---|---|---|---|---|']
    for k in kf:
        what = k['what']
        what = re.sub(r'^fixed: property=\w+ \w+ ', '', what)
        rows.append('| %s | %s | %s | `%s` | %s |' % (k['property'], k['status'], k.get('commit', '—'), k['signature'], what.replace('|', '\\|')))
    return '\n'.join(rows)

def table_fix_commits():
    log = subprocess.check_output(['git', '-C', '/repo', 'log', '--reverse', '--format=%h %s']).decode().splitlines()
    rows = ['| # | commit | subject |', '|---|---|---|']
    n = 0
    for l in log:
        h, s = l.split(' ', 1)
        if s.startswith('fix:'):
            n += 1
            rows.append('| %d | %s | %s |' % (n, h, s))
    return '\n'.join(rows)

def table_seeded():
    rows = ['| seeded change | property | file(s) changed | demo confirms | caught by | seconds | how it was reported |', '|---|---|---|---|---|---|---|']
    for d in sorted(glob.glob(os.path.join(V, 'seeded/*/meta.json'))):
        m = json.load(open(d))
        caught = [c for c, v in m['checks'].items() if v['exit'] == 1 and v['violation_line']]
        how = []
        for c in caught:
            vl = m['checks'][c]['violation_line']
            how.append('failing input' if 'no-failing-input-found' not in vl else 'no-failing-input-found')
        note = m.get('history', '')
        rows.append('| %s | %s | %s | %s | %s | %s | %s |' % (m['id'], m['property'], ', '.join(f.strip() for f in m['patch_files']), 'yes' if m['confirmed_by_demo'] else 'NO',
                    ', '.join(caught) or '**missed**', ', '.join(str(m['checks'][c]['seconds']) for c in caught), ', '.join(how) + ((' — ' + note) if note else '')))
    return '\n'.join(rows)

TABLES = {'PROPS': table_props, 'FINDINGS': table_findings, 'FIXES': table_fix_commits, 'SEEDED': table_seeded}

def main():
    p = os.path.join(V, 'DESIGN.md')
    s = open(p).read()
    for name, fn in TABLES.items():
        a, b = '<!-- AUTOGEN:%s -->' % name, '<!-- /AUTOGEN:%s -->' % name
        if a in s and b in s:
            s = s[:s.index(a) + len(a)] + '\n' + fn() + '\n' + s[s.index(b):]
    open(p, 'w').write(s)

if __name__ == '__main__':
    main()
