#!/usr/bin/env python3
"""Re-runs the checks that reported each kept seeded change (seeded/<id>/meta.json) against it and says which still do.
usage: seed_regress.py [id-prefix ...]     (patches are applied to the working tree of /repo — or of $VERIF_REPO — one at a time and reverted)"""
import json, os, subprocess, sys, time
V = os.path.dirname(os.path.dirname(os.path.abspath(__file__)))
REPO = os.environ.get('VERIF_REPO', '/repo')     # a scratch copy of the repository when given (then PYTHONPATH must point there too)
def sh(cmd):
    return subprocess.run(cmd, shell=True, stdout=subprocess.PIPE, stderr=subprocess.STDOUT, text=True)
ids = sorted(os.listdir(os.path.join(V, 'seeded')))
if len(sys.argv) > 1:
    ids = [i for i in ids if any(i.startswith(p) for p in sys.argv[1:])]
assert sh('git -C %s status --porcelain' % REPO).stdout.strip() == '', REPO + ' not clean'
saved = {}
lost = []
for sid in ids:
    d = os.path.join(V, 'seeded', sid)
    meta = json.load(open(os.path.join(d, 'meta.json')))
    caught_by = [c for c, r in meta['checks'].items() if r['exit'] == 1 and r['violation_line']]
    if not caught_by:
        continue
    ap = sh('git -C %s apply %s/patch.diff' % (REPO, d))
    if ap.returncode != 0:
        print('%s: patch does not apply any more (%s)' % (sid, ap.stdout.strip()[:100])); sh('git -C %s checkout -- .' % REPO); continue
    try:
        res = []
        for c in caught_by[:1]:
            ev = os.path.join(V, 'evidence', c + '.json')
            if c not in saved and os.path.exists(ev):
                saved[c] = open(ev).read()
            t0 = time.time()
            r = sh('cd %s && ./check %s --tier quick' % (V, c))
            viol = [l for l in r.stdout.splitlines() if l.startswith('VIOLATION')]
            ok = r.returncode == 1 and bool(viol)
            res.append('%s %s %s %.0fs' % (c, 'caught' if ok else 'LOST', 'nfi' if viol and 'no-failing-input-found' in viol[0] else '', time.time() - t0))
            if not ok:
                lost.append((sid, c))
        print('%s: %s' % (sid, '; '.join(res)), flush=True)
    finally:
        sh('git -C %s checkout -- .' % REPO)
for c, txt in saved.items():
    open(os.path.join(V, 'evidence', c + '.json'), 'w').write(txt)
print('LOST:', lost)
