#!/bin/sh
# Runs the repository's pinned test suite (guard off) and compares with BASELINE.json's stable_pass list.
cd /repo && env -u SLIMTA_VERIF /venv/bin/python -m pytest -q -p no:cacheprovider --timeout=900 --continue-on-collection-errors --junitxml=/tmp/verif_baseline.xml >/tmp/verif_baseline.log 2>&1
python3 - <<'PY'
import json, xml.etree.ElementTree as ET
b=json.load(open('/root/.vp/BASELINE.json'))
want=set(b['stable_pass'])
t=ET.parse('/tmp/verif_baseline.xml')
ok=set()
for tc in t.iter('testcase'):
    if not any(c.tag in ('failure','error','skipped') for c in tc):
        ok.add('%s::%s' % (tc.get('classname'), tc.get('name')))
missing=sorted(want-ok)
print('baseline: %d/%d stable tests pass' % (len(want&ok), len(want)))
for m in missing[:20]: print('  NOT PASSING:', m)
raise SystemExit(1 if missing else 0)
PY
rm -f /tmp/verif_baseline.xml /tmp/verif_baseline.log
