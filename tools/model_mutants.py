#!/usr/bin/env python3
"""How sensitive is the tie? Each mutant below changes ONE definition of the hand-written Lean model the way a modelling mistake would
(a wrong branch, an off-by-one, a forgotten case, a swapped order). If the correspondence campaign of the named property does not report
a difference between model and code for it, the campaign does not exercise that part of the model: the theorems about it would then be
tied to the code by nothing. (A mutant may also break a proof; what is measured here is the campaign: the proofs are stubbed out in the scratch copy.)

usage: model_mutants.py [name-prefix ...]       works in a scratch copy of /verif (default /tmp/verif_mm, removed afterwards);
                                                VERIF_REPO / PYTHONPATH as for ./check. Prints one line per mutant and a summary.
"""
import os, re, shutil, subprocess, sys, time

V = os.path.dirname(os.path.dirname(os.path.abspath(__file__)))
SCRATCH = os.environ.get('VERIF_MM_DIR', '/tmp/verif_mm')

# (name, property whose campaign should notice, model file, old text, new text)
MUTANTS = [
    ('edge-451-becomes-450', 'C02', 'Edge.lean', '| some (.queueError none) => 451', '| some (.queueError none) => 450'),
    ('edge-4xx-http-502', 'C02', 'Edge.lean', 'else if code / 100 == 4 then 503', 'else if code / 100 == 4 then 502'),
    ('edge-proxy-whole-is-error', 'C02', 'Edge.lean', '| .whole => [.id]', '| .whole => [.relayError 550]'),
    ('ingress-handoffs-continue-after-exception', 'C02', 'Ingress.lean', '| .otherExc :: _ => []', '| .otherExc :: ws => handoffLabels ws'),
    ('ingress-http-hop-no-header', 'C02', 'Ingress.lean', '| some l => .response (Edge.wsgiStatus l) (some (Edge.smtpReply l))', '| some l => .response (Edge.wsgiStatus l) none'),
    ('policy-bad-recipients-reversed', 'C16', 'Policy.lean', 'bad ++ [r])', 'r :: bad)'),
    ('policy-forward-accepts-empty', 'C16', 'Policy.lean', 'if nonEmpty && changes > 0 then nv', 'if changes > 0 then nv'),
    ('policy-received-appended', 'C16', 'Policy.lean', 'hdrs := .received :: e.hdrs', 'hdrs := e.hdrs ++ [.received]'),
    ('sched-sleeps-although-due', 'C12', 'Sched.lean', '| some e => if s.now < e.1 then', '| some e => if s.now ≤ e.1 then'),
    ('sched-addqueued-ignores-active', 'C12', 'Sched.lean', 'if s.queuedIds.contains id || s.active.contains id then s', 'if s.queuedIds.contains id then s'),
    ('qm-permanent-bounce-says-too-many', 'C13', 'QueueM.lean', 'if bn then [⟨r, m.rcpts, false⟩] else [], none⟩', 'if bn then [⟨r, m.rcpts, true⟩] else [], none⟩'),
    ('qm-retry-counts-twice', 'C01', 'QueueM.lean', 'let m1 : Msg := { m with attempts := m.attempts + 1 }', 'let m1 : Msg := { m with attempts := m.attempts + 2 }'),
    ('qm-requeue-keeps-recipients', 'C03', 'QueueM.lean', 'msgs := upd q.msgs id (some { m with rcpts := pd.newRcpts m.rcpts }), pend', 'msgs := upd q.msgs id (some m), pend'),
    ('store-rounds-prepended', 'C15', 'Store.lean', 'delivered := r.delivered ++ sortDesc idxs })', 'delivered := sortDesc idxs ++ r.delivered })'),
    ('store-remove-keeps', 'C15', 'Store.lean', '| .remove i => ({ s with recs := erase i s.recs }, .unit)', '| .remove i => (s, .unit)'),
    ('disk-remove-meta-first', 'C04', 'DiskFS.lean', '| .remove id => [.unlink (.env id), .unlink (.mfile id)]', '| .remove id => [.unlink (.mfile id), .unlink (.env id)]'),
    ('disk-rounds-unsorted', 'C04', 'DiskFS.lean', 'delivered := m.delivered ++ Store.sortDesc idxs }', 'delivered := m.delivered ++ idxs }'),
    ('server-data-needs-mail-only', 'C07', 'Server.lean', 'else if !s.haveMail.truthy || !s.haveRcpt.truthy then (s, [.reply 503], .continue_)', 'else if !s.haveMail.truthy then (s, [.reply 503], .continue_)'),
    ('server-tls-keeps-ehlo', 'C08', 'Server.lean', '({ s with ehloAs := none, extTls := false, encrypted := true,', '({ s with extTls := false, encrypted := true,'),
    ('data-stuffing-forgotten', 'C05', 'Data.lean', 'if prevLF && b == 46 then 46 :: 46 :: stuff false rest', 'if prevLF && b == 46 then 46 :: stuff false rest'),
    ('data-unstuff-keeps-dot', 'C05', 'Data.lean', '  | 46 :: rest => rest', '  | 46 :: rest => 46 :: rest'),
    ('reply-tab-not-a-separator', 'C17', 'Reply.lean', '(sep == 32 || sep == 9 || sep == 45)', '(sep == 32 || sep == 45)'),
    ('proxy-v2-unix-107', 'C18', 'Proxy.lean', 'else some (.unix (rstripNul (ad.take 108)))', 'else some (.unix (rstripNul (ad.take 107)))'),
    ('relay-4xx-not-an-error', 'C11', 'Relay.lean', 'def isError (c : Nat) : Bool := c / 100 == 4 || c / 100 == 5', 'def isError (c : Nat) : Bool := c / 100 == 5'),
    ('relay-http-classes-swapped', 'C11', 'Relay.lean', '| none => if status / 100 == 4 then .raised .perm else .raised .temp', '| none => if status / 100 == 4 then .raised .temp else .raised .perm'),
    ('mx-chooses-next', 'C11', 'Mx.lean', '(records[attempts % records.length]?).map (·.2)', '(records[(attempts + 1) % records.length]?).map (·.2)'),
    ('mx-cache-expires-late', 'C11', 'Mx.lean', 'c.expiration == 0 || now ≥ c.expiration', 'c.expiration == 0 || now > c.expiration'),
    ('pool-one-client-too-many', 'C19', 'Pool.lean', 'else if s.size == 0 || s.clients.length < s.size then addClient s', 'else if s.size == 0 || s.clients.length ≤ s.size then addClient s'),
    ('pool-no-respawn', 'C19', 'Pool.lean', 'some (if !s1.queue.isEmpty && s1.clients.isEmpty then addClient s1 else s1)', 'some s1'),
    ('client-lhlo-keeps-rcpts', 'C10', 'Client.lean', 'rcpttos := if m == .lhlo then [] else s2.rcpttos }', 'rcpttos := s2.rcpttos }'),
    ('hop-decimal-ten-is-a-digit', 'C06', 'HttpHop.lean', 'if h : n < 10 then [48 + n] else decimal (n / 10) ++ [48 + n % 10]', 'if h : n < 11 then [48 + n] else decimal (n / 10) ++ [48 + n % 10]'),
    ('wire-b64-urlsafe', 'C06', 'Wire.lean', 'else if i = 62 then 43 else 47', 'else if i = 62 then 45 else 95'),
    ('bounce-missing-key-removed', 'C13', 'Bounce.lean', '| none => if remove then [] else [123] ++ k ++ [125]) ++ format remove tbl ps', '| none => []) ++ format remove tbl ps'),
    ('envelope-no-boundary-not-normalised', 'C20', 'Envelope.lean', '  | none => (normCRLF d ++ [13, 10], [])', '  | none => (d ++ [13, 10], [])'),
    ('timeouts-data-unscoped', 'C14', 'Timeouts.lean', '  | .data => some c.data', '  | .data => none'),
    # ---- second batch
    ('attempt-group-order', 'C13', 'Attempt.lean', '| (rp\', g) :: rest => if rp\' == rp then (rp\', g ++ [rc]) :: rest', '| (rp\', g) :: rest => if rp\' == rp then (rp\', rc :: g) :: rest'),
    ('attempt-perm-counts-as-outstanding', 'C03', 'Attempt.lean', '    | .ok | .perm _ => some (m.rcpts.idxOf rc)\n    | .temp _ => none\n  let oks := res.filterMap fun (rc, v) => match v with | .ok => some rc | _ => none\n  let perms := res.filterMap fun (rc, v) => match v with | .perm r => some (rc, r) | _ => none\n  let temps := res.filterMap fun (rc, v) => match v with | .temp r => some (rc, r) | _ => none\n  let pb := bouncesFor', '    | .ok => some (m.rcpts.idxOf rc)\n    | .perm _ | .temp _ => none\n  let oks := res.filterMap fun (rc, v) => match v with | .ok => some rc | _ => none\n  let perms := res.filterMap fun (rc, v) => match v with | .perm r => some (rc, r) | _ => none\n  let temps := res.filterMap fun (rc, v) => match v with | .temp r => some (rc, r) | _ => none\n  let pb := bouncesFor'),
    ('attempt-zipdict-appends-duplicates', 'C01', 'Attempt.lean', 'zipDict rs vs (if acc.any (·.1 == rc) then acc.map (fun p => if p.1 == rc then (rc, v) else p) else acc ++ [(rc, v)])', 'zipDict rs vs (acc ++ [(rc, v)])'),
    ('attempt-other-is-permanent', 'C01', 'QueueM.lean', '  | .transient r | .other r => ⟨[], [], [], some (.whole r)⟩', '  | .transient r => ⟨[], [], [], some (.whole r)⟩\n  | .other r => ⟨[], m.rcpts.map fun rc => (rc, r), if bn then [⟨r, m.rcpts, false⟩] else [], none⟩'),
    ('qm-giveup-no-toomany', 'C13', 'QueueM.lean', '| .whole r => (rcpts.map fun rc => (rc, r), if bn then [⟨r, rcpts, true⟩] else [])', '| .whole r => (rcpts.map fun rc => (rc, r), if bn then [⟨r, rcpts, false⟩] else [])'),
    ('qm-dequeue-hands-original', 'C03', 'QueueM.lean', '| some m => some { q with s := s\', flight := upd q.flight id (some m), handed := (id, m.rcpts, m.attempts) :: q.handed }', '| some m => some { q with s := s\', flight := upd q.flight id (some m), handed := (id, (q.orig id).getD m.rcpts, m.attempts) :: q.handed }'),
    ('sched-flush-keeps-timetable', 'C12', 'Sched.lean', 'some { s with deq := s.deq ++ s.queued.map (fun e => (e.2, Cause.flush)), queued := [], queuedIds := [] }', 'some { s with deq := s.deq ++ s.queued.map (fun e => (e.2, Cause.flush)) }'),
    ('sched-remove-keeps-active', 'C12', 'Sched.lean', 'queuedIds := without s.queuedIds id, active := without s.active id }', 'queuedIds := without s.queuedIds id }'),
    ('sched-retry-keeps-old-time', 'C12', 'Sched.lean', 'stored := s1.stored.map (fun e => if e.1 == id then (id, when) else e), retrying', 'stored := s1.stored, retrying'),
    ('sched-cut-strict', 'C12', 'Sched.lean', '  let due := s.queued.takeWhile (fun e => e.1 ≤ s.now)\n  let rest := s.queued.dropWhile (fun e => e.1 ≤ s.now)', '  let due := s.queued.takeWhile (fun e => e.1 < s.now)\n  let rest := s.queued.dropWhile (fun e => e.1 < s.now)'),
    ('relay-all-rcpts-refused-uses-last', 'C11', 'Relay.lean', 'else if rcpts.all isError then .inl (fail (ownClasses rcpts) (factory (rcpts.headD 550)))', 'else if rcpts.all isError then .inl (fail (ownClasses rcpts) (factory (rcpts.getLastD 550)))'),
    ('relay-lmtp-missing-eod-is-ok', 'C11', 'Relay.lean', '  | .ok :: ps, [] => .temp :: mergeLmtp ps []', '  | .ok :: ps, [] => .ok :: mergeLmtp ps []'),
    ('relay-no-pipelining-sends-rcpt-anyway', 'C11', 'Relay.lean', '      if !s.pipelining && isError mail then .raised (factory mail)\n      else', '      if false then .raised (factory mail)\n      else'),
    ('relay-pipe-killed-is-delivered', 'C11', 'Relay.lean', '  | .killed => .temp', '  | .killed => .ok'),
    ('relay-pipe-single-uses-table', 'C11', 'Relay.lean', '    | some o => .raised (pipeCls o)', '    | some o => .table (outs.map fun _ => pipeCls o)'),
    ('edge-first-error-skips-queueerror', 'C02', 'Edge.lean', '  | .id :: rs => firstError rs\n  | r :: _ => some r', '  | .id :: rs => firstError rs\n  | .queueError none :: rs => firstError rs\n  | r :: _ => some r'),
    ('edge-proxy-last-failure', 'C02', 'Edge.lean', '  | .perRcpt l => match l.find? Option.isSome with', '  | .perRcpt l => match l.reverse.find? Option.isSome with'),
    ('timeouts-deadline-per-piece', 'C14', 'Timeouts.lean', '  | some T, some n => if n ≤ T then .done n else .timedOut T', '  | some T, some n => if w.gaps.all (fun g => match g with | some x => x ≤ T | none => false) then .done n else .timedOut T'),
    ('pool-poll-takes-last', 'C19', 'Pool.lean', '       | r :: q => some (setSt { s with queue := q } c (.busy r ru))\n       | [] => some (setSt s c (.idle ru)))', '       | r :: q => some (setSt { s with queue := (r :: q).dropLast } c (.busy ((r :: q).getLast (by simp)) ru))\n       | [] => some (setSt s c (.idle ru)))'),
    ('pool-requeue-at-back', 'C19', 'Pool.lean', 'some (setSt { s with queue := r :: s.queue } c .exiting) else none', 'some (setSt { s with queue := s.queue ++ [r] } c .exiting) else none'),
    ('deque-extendleft-not-reversed', 'C19', 'Pool.lean', '    ({ items := xs.reverse ++ d.items, sema := d.sema + ((xs.reverse ++ d.items).length - d.items.length) }, .unit)', '    ({ items := xs ++ d.items, sema := d.sema + ((xs ++ d.items).length - d.items.length) }, .unit)'),
    ('mx-insert-before-equal', 'C11', 'Mx.lean', '  | x :: xs => if x.1 > r.1 then r :: x :: xs else x :: insertRec r xs', '  | x :: xs => if x.1 ≥ r.1 then r :: x :: xs else x :: insertRec r xs'),
    ('mx-a-fallback-on-error', 'C11', 'Mx.lean', '  | .error => .dnsError\n  | .noData | .notFound =>\n    match a with\n    | .records l => .hosts (l.map fun _ => (0, 0))', '  | .error | .noData | .notFound =>\n    match a with\n    | .records l => .hosts (l.map fun _ => (0, 0))'),
    ('store-get-ignores-rounds', 'C15', 'Store.lean', '  | _ => delSeq r.delivered r.rcpts', '  | _ => r.rcpts'),
    ('store-redis-incr-creates-zero', 'C15', 'Store.lean', "recs := s.recs ++ [(i, ⟨0, 0, [], [], 1, 0, false⟩)] }, .attempts 1)", "recs := s.recs ++ [(i, ⟨0, 0, [], [], 0, 0, false⟩)] }, .attempts 0)"),
    ('disk-write-meta-first', 'C04', 'DiskFS.lean', 'dump k c1 (.env id) (.envelope e) ++ dump (k + 1) c2 (.mfile id) (.metaC ⟨ts, 0, []⟩)', 'dump (k + 1) c2 (.mfile id) (.metaC ⟨ts, 0, []⟩) ++ dump k c1 (.env id) (.envelope e)'),

    # ---- third batch
    ('data-toobig-at-limit', 'C07', 'Data.lean', '  | some m => m != 0 && size > m', '  | some m => m != 0 && size ≥ m'),
    ('server-helo-keeps-extensions', 'C07', 'Server.lean', 'extTls := if isE then s1.extTls else false, extAuth := if isE then s1.extAuth else false,', 'extTls := s1.extTls, extAuth := s1.extAuth,'),
    ('server-ehlo-keeps-transaction', 'C07', 'Server.lean', '{ s1 with haveMail := .unset, haveRcpt := .unset, ehloAs := some a, envelope := none, sessEhlo := some a,', '{ s1 with ehloAs := some a, envelope := none, sessEhlo := some a,'),
    ('server-starttls-without-ehlo', 'C08', 'Server.lean', '  else if s.ehloAs.isNone then (s, [.reply 503], .continue_)\n  else\n    let (s1, evs, code) := callback v s .starttls 220', '  else\n    let (s1, evs, code) := callback v s .starttls 220'),
    ('server-auth-during-transaction', 'C08', 'Server.lean', 'else if s.ehloAs.isNone || s.authed || s.haveMail.truthy then (s, [.reply 503], .continue_)', 'else if s.ehloAs.isNone || s.authed then (s, [.reply 503], .continue_)'),
    ('server-second-mail-accepted', 'C07', 'Server.lean', '        else if s.haveMail.truthy then (s, [.reply 503], .continue_)\n        else\n          let params', '        else\n          let params'),
    ('server-size-equal-refused', 'C07', 'Server.lean', '| some m => if size > m then (s, [.reply 552], .continue_) else mailAccepted v s addr params', '| some m => if size ≥ m then (s, [.reply 552], .continue_) else mailAccepted v s addr params'),
    ('server-rcpt-without-mail', 'C07', 'Server.lean', '        else if !s.haveMail.truthy then (s, [.reply 503], .continue_)\n        else\n          let params := gatherParams (rest.length + 1) false rest\n          let (s1, evs, code) := callback v s (.rcpt addr params) 250', '        else\n          let params := gatherParams (rest.length + 1) false rest\n          let (s1, evs, code) := callback v s (.rcpt addr params) 250'),
    ('server-rset-keeps-flags', 'C07', 'Server.lean', '    let s2 := if code == 250 then { s1 with haveMail := .unset, haveRcpt := .unset } else s1\n    finish { s2 with envelope := none } evs code', '    let s2 := s1\n    finish { s2 with envelope := none } evs code'),
    ('server-afterdata-keeps-transaction', 'C07', 'Server.lean', '  let s2 := { s1 with haveMail := .unset, haveRcpt := .unset, envelope := none }\n  finish s2 evs code\'', '  let s2 := { s1 with envelope := none }\n  finish s2 evs code\''),
    ('server-toobig-asks-validators', 'C07', 'Server.lean', "  let code' := if content.isNone then 552 else code", "  let code' := code"),
    ('server-command-lowercase-unknown', 'C07', 'Server.lean', '  else if rest.all isWs then some (name.map upper, none)', '  else if rest.all isWs then some (name, none)'),
    ('client-rset-keeps-lmtp-rcpts', 'C10', 'Client.lean', '    if s.lmtp then { s2 with rcpttos := [] } else s2\n  | .ehlo | .lhlo =>', '    s2\n  | .ehlo | .lhlo =>'),
    ('client-mail-always-flushes', 'C10', 'Client.lean', '  | .mail =>\n    let (s1, _) := enqueue s\n    flushUnlessPipelining s1', '  | .mail =>\n    let (s1, _) := enqueue s\n    flushNow s1'),
    ('client-lmtp-counts-all-rcpts', 'C10', 'Client.lean', '          | some (c, _) => codeIs2xx c\n          | none => false', '          | some (c, _) => true\n          | none => false'),
    ('session-no-rset-after-refusal', 'C11', 'RelaySession.lean', '  | some (_, r) => ⟨cmds ++ [.rset], true, false, r⟩', '  | some (_, r) => ⟨cmds, true, false, r⟩'),
    ('session-dead-connection-goes-on', 'C11', 'RelaySession.lean', '    o.cmds ++ (if o.alive then session lmtp pipelining ns o.rest else [])', '    o.cmds ++ session lmtp pipelining ns o.rest'),
    ('pool-expire-keeps-client', 'C19', 'Pool.lean', '    | some (.idle _) => if s.reuse then some (setSt s c (if s.persistent then .ready false else .exiting)) else none', '    | some (.idle _) => if s.reuse then some (setSt s c (.ready false)) else none'),
    ('pool-finish-never-reuses', 'C19', 'Pool.lean', 'c (if s.reuse then .ready true else .exiting))', 'c .exiting)'),
    ('sched-write-not-tracked', 'C12', 'Sched.lean', 'else some { s with stored := (id, ts) :: s.stored, written := id :: s.written, known := id :: s.known }', 'else some { s with stored := (id, ts) :: s.stored, known := id :: s.known }'),
    ('sched-announce-unknown-refused', 'C12', 'Sched.lean', '    if s.stored.contains (id, ts) || (s.known.contains id && (tsOf s id).isSome) then', '    if s.known.contains id && (tsOf s id).isSome then'),
    ('sched-dequeue-ignores-active', 'C12', 'Sched.lean', '            else if s1.active.contains id then s1\n            else handOff s1 id c)', '            else handOff s1 id c)'),
    ('edge-http-535-is-500', 'C02', 'Edge.lean', 'else if code == 535 then 401 else 500', 'else 500'),
    ('policy-split-single-copies', 'C16', 'Policy.lean', '    if e.rcpts.length ≤ 1 then (e, none, next)', '    if e.rcpts.length ≤ 0 then (e, none, next)'),
    ('policy-date-always-added', 'C16', 'Policy.lean', 'hdrs := if hasHdr .date e.hdrs then e.hdrs else e.hdrs ++ [.date] }', 'hdrs := e.hdrs ++ [.date] }'),
    ('mx-nodata-is-error', 'C11', 'Mx.lean', '    | .noData | .notFound => .nothing\n    | .error => .dnsError', '    | .noData | .notFound | .error => .dnsError'),
    ('mx-negative-cached', 'C11', 'Mx.lean', '    | .noData | .notFound => some (none, 0)', '    | .noData | .notFound => some (none, now + 60)'),
    ('data-eod-lone-dot-lf', 'C05', 'Data.lean', '  | b :: rest => b == 46 && rest.all isWs && rest.getLast? == some 10', '  | b :: rest => b == 46 && rest == [13, 10]'),

    # ---- fourth batch
    ('reply-last-line-dash', 'C17', 'Reply.lean', "  | [l] => code ++ [32] ++ l ++ CRLF\n  | l :: rest => code ++ [45] ++ l ++ CRLF ++ encodeLines code rest", "  | [l] => code ++ [45] ++ l ++ CRLF\n  | l :: rest => code ++ [45] ++ l ++ CRLF ++ encodeLines code rest"),
    ('reply-mixed-codes-consumed', 'C17', 'Reply.lean', 'if code.isSome && code != some cd then .bad buf', 'if code.isSome && code != some cd then .bad r'),
    ('reply-code-6xx-ok', 'C17', 'Reply.lean', '  | d :: _ => 49 ≤ d && d ≤ 53', '  | d :: _ => 49 ≤ d && d ≤ 54'),
    ('reply-utf8-surrogates-ok', 'C17', 'Reply.lean', 'let hi : Byte := if b0 == 0xED then 0x9F else 0xBF', 'let hi : Byte := 0xBF'),
    ('reply-bad-line-not-consumed', 'C17', 'Reply.lean', '    | none => .bad r                                      -- not a reply line: BadReply, line consumed', '    | none => .bad buf'),
    ('proxy-port-65536', 'C18', 'Proxy.lean', '    if v ≤ 65535 then some v else none', '    if v ≤ 65536 then some v else none'),
    ('proxy-v2-local-proceeds', 'C18', 'Proxy.lean', '          | some a => if cmd == 0 then (.drop, s2) else (.proceed a, s2)', '          | some a => (.proceed a, s2)'),
    ('proxy-v2-short-inet-accepted', 'C18', 'Proxy.lean', '              if ad.length < 12 then none', '              if ad.length < 10 then none'),
    ('proxy-v2-version-ignored', 'C18', 'Proxy.lean', '      if vc &&& 0xf0 != 0x20 then (.proceed .none, s1)\n      else', '      if false then (.proceed .none, s1)\n      else'),
    ('proxy-unknown-needs-addresses', 'C18', 'Proxy.lean', '      if p0 == kwUNKNOWN then some (.none, .none)', '      if p0 == kwUNKNOWN && ps.isEmpty then some (.none, .none)'),
    ('proxy-dispatch-v2-first', 'C18', 'Proxy.lean', '    else (.proceed .none, s1)\n\nend Slimta.Proxy', '    else (.drop, s1)\n\nend Slimta.Proxy'),
    ('bounce-format-keeps-braces', 'C13', 'Bounce.lean', '     | some v => v\n     | none => if remove then [] else [123] ++ k ++ [125]) ++ format remove tbl ps', '     | some v => [123] ++ v ++ [125]\n     | none => if remove then [] else [123] ++ k ++ [125]) ++ format remove tbl ps'),
    ('edge-reply-needs-all-results', 'C02', 'Edge.lean', '    if s.pending.isEmpty && s.replied.isNone then', '    if s.replied.isNone then'),
    ('qm-activate-skips-when-active', 'C01', 'QueueM.lean', '      if q.s.active.contains id then some { q with s := s\' }\n      else match q.orig id with', '      if false then some { q with s := s\' }\n      else match q.orig id with'),
    ('qm-done-keeps-flight', 'C03', 'QueueM.lean', "        some { q with s := s', flight := upd q.flight id none, pend := upd q.pend id p.pend,", "        some { q with s := s', pend := upd q.pend id p.pend,"),
    ('store-load-drops-first', 'C15', 'Store.lean', '  | .load => (s, .listing (s.recs.map fun (i, r) => (r.ts, i)))', '  | .load => (s, .listing ((s.recs.drop 1).map fun (i, r) => (r.ts, i)))'),
    ('store-write-attempts-one', 'C15', 'Store.lean', '({ recs := s.recs ++ [(s.next, ⟨sender, content, rcpts, [], 0, ts, true⟩)], next := s.next + 1 }, .id s.next)', '({ recs := s.recs ++ [(s.next, ⟨sender, content, rcpts, [], 1, ts, true⟩)], next := s.next + 1 }, .id s.next)'),
    ('wire-b64-pad-one', 'C06', 'Wire.lean', '  | [a] => [b64char (a / 4), b64char ((a % 4) * 16), 61, 61]', '  | [a] => [b64char (a / 4), b64char ((a % 4) * 16), 61]'),
    ('mx-sort-descending', 'C11', 'Mx.lean', '  | x :: xs => if x.1 > r.1 then r :: x :: xs else x :: insertRec r xs', '  | x :: xs => if x.1 < r.1 then r :: x :: xs else x :: insertRec r xs'),
    ('timeouts-command-uses-data-limit', 'C14', 'Timeouts.lean', '  | .command => some c.command', '  | .command => some c.data'),
    ('pool-unbounded-ignored', 'C19', 'Pool.lean', 'else if s.size == 0 || s.clients.length < s.size then addClient s', 'else if s.clients.length < s.size then addClient s'),
    ('deque-remove-keeps-sema', 'C19', 'Pool.lean', '      else ({ items := d.items.erase x, sema := d.sema - 1 }, .unit)', '      else ({ items := d.items.erase x, sema := d.sema }, .unit)'),

    # ---- fifth batch
    ('wire-size-without-space', 'C06', 'Wire.lean', '  | some d => [32, 83, 73, 90, 69, 61] ++ d', '  | some d => [83, 73, 90, 69, 61] ++ d'),
    ('wire-ext-empty-param-kept', 'C06', 'Wire.lean', '  | some p => if p.isEmpty then name else name ++ [32] ++ p', '  | some p => name ++ [32] ++ p'),
    ('wire-ext-name-not-uppercased', 'C06', 'Wire.lean', '      some (name.map Server.upper, if arg.isEmpty then none else some arg)', '      some (name, if arg.isEmpty then none else some arg)'),
    ('hop-body-not-cut', 'C06', 'HttpHop.lean', 'rcpts := rcpts, data := r.body.take cl }', 'rcpts := rcpts, data := r.body }'),
    ('hop-no-rcpt-header-is-error', 'C06', 'HttpHop.lean', '    | none => some []\n    | some raw => if raw.isEmpty then some [] else (splitTokens raw).mapM b64dec', '    | none => none\n    | some raw => if raw.isEmpty then some [] else (splitTokens raw).mapM b64dec'),
    ('hop-ehlo-default-ignored', 'C06', 'HttpHop.lean', 'pure { ehlo := (environGet r .ehlo).getD dflt,', 'pure { ehlo := (environGet r .ehlo).getD [],'),
    ('bounce-headers-only-keeps-body', 'C13', 'Bounce.lean', '(x.origHeader ++ ((if x.headersOnly then [] else x.origBody) ++ format true (table x) ftr))', '(x.origHeader ++ (x.origBody ++ format true (table x) ftr))'),
    ('bounce-content-type-swapped', 'C13', 'Bounce.lean', 'some (if x.headersOnly then str "text/rfc822-headers" else str "message/rfc822")', 'some (if x.headersOnly then str "message/rfc822" else str "text/rfc822-headers")'),
    ('bounce-no-remote-mta', 'C13', 'Bounce.lean', '      | some h => [str "Remote-MTA: dns; " ++ h]', '      | some h => []'),
    ('bounce-rcpt-join-plain', 'C13', 'Bounce.lean', 'def joinRcpts (rs : List Bytes) : Bytes := joinWith [13, 10, 45, 32] rs', 'def joinRcpts (rs : List Bytes) : Bytes := joinWith [13, 10] rs'),
    ('session-lmtp-one-reply', 'C11', 'RelaySession.lean', '  let nAns := if lmtp then accepted else 1', '  let nAns := 1'),
    ('session-empty-data-skipped', 'C11', 'RelaySession.lean', '        | some (_, r) => failRset (cmds ++ [.empty]) r', '        | some (_, r) => failRset cmds r'),
    ('client-banner-pipelined', 'C10', 'Client.lean', '  | .banner | .helo | .data | .quit | .custom | .getReply =>\n    let (s1, _) := enqueue s\n    flushNow s1', '  | .banner | .helo | .data | .quit | .custom | .getReply =>\n    let (s1, _) := enqueue s\n    flushUnlessPipelining s1'),
    ('data-eod-added-without-crlf', 'C05', 'Data.lean', '  if msg.isEmpty || endsWith msg CRLF then [46, 13, 10] else [13, 10, 46, 13, 10]', '  if msg.isEmpty then [46, 13, 10] else [13, 10, 46, 13, 10]'),
    ('edge-exception-is-451', 'C02', 'Edge.lean', 'def smtpSees (r : Option (List Res)) : Nat := match r with | some l => smtpReply l | none => 421', 'def smtpSees (r : Option (List Res)) : Nat := match r with | some l => smtpReply l | none => 451'),
    ('sched-poke-does-nothing', 'C12', 'Sched.lean', '  | .poke => some { s with wake := false, poked := s.poked || s.asleep.isSome }', '  | .poke => some s'),
    ('mx-empty-a-answer-is-host', 'C11', 'Mx.lean', '      if l.isEmpty then .permanent', '      if false then .permanent'),

    # ---- sixth batch
    ('auth-cancel-in-initial-ignored', 'C08', 'Server.lean', '    if r == [42] then .ok (.error 501, [], st)\n    else match ao.b64 r with', '    if false then .ok (.error 501, [], st)\n    else match ao.b64 r with'),
    ('auth-cleartext-allowed', 'C08', 'Server.lean', '  else if !s.encrypted then .ok (s, [.reply 504], .continue_, st)       -- both are plain-text mechanisms', '  else if false then .ok (s, [.reply 504], .continue_, st)'),
    ('auth-any-code-authenticates', 'C08', 'Server.lean', '      let s2 := { s1 with authed := code == 235 }', '      let s2 := { s1 with authed := true }'),
    ('auth-login-bad-utf8-accepted', 'C08', 'Server.lean', '          if !utf8 user || !utf8 pass then .ok (s, evs ++ evs2 ++ [.reply 501], .continue_, st\'\')', '          if false then .ok (s, evs ++ evs2 ++ [.reply 501], .continue_, st\'\')'),
    ('auth-unknown-mechanism-tried', 'C08', 'Server.lean', '  if mech != mPLAIN && mech != mLOGIN then .ok (s, [.reply 504], .continue_, st)', '  if mech != mPLAIN && mech != mLOGIN && false then .ok (s, [.reply 504], .continue_, st)'),
    ('proxy-v1-tcp6-as-inet', 'C18', 'Proxy.lean', 'if p0 == kwTCP4 then some .inet else if p0 == kwTCP6 then some .inet6 else none', 'if p0 == kwTCP4 then some .inet else if p0 == kwTCP6 then some .inet else none'),
    ('proxy-v2-port-bytes-swapped', 'C18', 'Proxy.lean', 'def be16 (a b : Byte) : Nat := a.toNat * 256 + b.toNat', 'def be16 (a b : Byte) : Nat := b.toNat * 256 + a.toNat'),
    ('proxy-v1-needs-no-crlf', 'C18', 'Proxy.lean', '  if proxyPrefix.isPrefixOf line && endsCRLF line then', '  if proxyPrefix.isPrefixOf line then'),
    ('envelope-continuation-starts-field', 'C20', 'Envelope.lean', '    else if c.head? == some 32 || c.head? == some 9 then', '    else if c.head? == some 32 then'),
    ('envelope-value-keeps-leading-space', 'C20', 'Envelope.lean', '      | some (n, v) => fieldsOf r ((n, [lstripWs v]) :: acc)', '      | some (n, v) => fieldsOf r ((n, [v]) :: acc)'),
    ('envelope-7bit-del-is-8bit', 'C20', 'Envelope.lean', 'def isAscii (b : Bytes) : Bool := b.all fun x => x < 128', 'def isAscii (b : Bytes) : Bool := b.all fun x => x < 127'),
    ('sched-wake-ignored', 'C12', 'Sched.lean', '  | some none => s.wake || s.poked', '  | some none => s.poked'),
    ('sched-timer-ignored', 'C12', 'Sched.lean', '  | some (some t) => s.wake || s.poked || t ≤ s.now', '  | some (some t) => s.wake || s.poked'),
    ('pool-wake-takes-nothing', 'C19', 'Pool.lean', "    | some (.idle ru), r :: q => some (setSt { s with queue := q } c (.busy r ru))", "    | some (.idle ru), r :: q => some (setSt { s with queue := r :: q } c (.busy r ru))"),
    ('timeouts-connect-unscoped', 'C14', 'Timeouts.lean', '  | .connect => some c.connect', '  | .connect => none'),
    ('client-failed-goes-on', 'C10', 'Client.lean', '  if s.failed.isSome then s else\n  match m with', '  if false then s else\n  match m with'),
    ('relay-tls-required-ignored', 'C11', 'Relay.lean', '                if isError t && cfg.tlsRequired then some (.raised (factory t))', '                if false then some (.raised (factory t))'),
    ('relay-8bit-conversion-ignored', 'C11', 'Relay.lean', '  if (!s.eightBit && cfg.body8bit && !cfg.hasEncoder) || (cfg.utf8Addr && !s.smtputf8) then .raised .perm', '  if (cfg.utf8Addr && !s.smtputf8) then .raised .perm'),

]


# mutants that are known not to be observable, with the reason (they are run all the same; a kill would be a surprise worth reading)
EXPECTED_SURVIVORS = {
    'attempt-zipdict-appends-duplicates': 'differs only for duplicate recipients; the queue machine and its campaigns are about distinct recipients (hypothesis Nodup, recipients numbered by the harness)',
    'relay-all-rcpts-refused-uses-last': 'equivalent: when every RCPT is refused every recipient has a class of its own, and the raised class is used only when all of them are of one kind',
    'relay-lmtp-missing-eod-is-ok': 'unreachable: a script always holds one end-of-data outcome per recipient (a reply that never comes is the outcome "stall", not a shorter list)',
    'session-dead-connection-goes-on': 'not observable: after a connection broke the harness compares the commands of that connection only up to the break (what a dead peer would still have been sent is nothing)',
    'proxy-unknown-needs-addresses': 'equivalent: a PROXY UNKNOWN line with further fields is taken for UNKNOWN by the code and for unparsable by the mutant, and both mean the address (None, None)',
    'edge-reply-needs-all-results': 'not driven by the campaign: EnqState is the event-order model behind no_reply_before_writes_complete; its claim is monitored on the code directly (a gated slow write, c02.reply-before-write-completed)',
    'qm-activate-skips-when-active': 'unreachable in calm runs: a message enqueue() has just written is active only if an announcement of it was dequeued before the hand-off, which Calm excludes (the non-calm witness is the known finding of C12)',
    'qm-done-keeps-flight': 'not observable: flight is read only by the verdict of a done step, which the scheduler model admits only while the message is in flight, and every hand-off overwrites it',
    'mx-empty-a-answer-is-host': 'equivalent: with an empty record list choose_mx finds nothing and the attempt is a permanent failure either way',
    'auth-cancel-in-initial-ignored': 'equivalent: an initial response `*` that is not taken for a cancellation is not valid base64 credentials either: 501 both ways',
    'store-redis-incr-creates-zero': 'not observable: the answer of an update on a removed id is outside the storage contract (compared nowhere), and the counter of the hash it recreates is never read (get raises KeyError)',
}


def sh(cmd, **kw):
    return subprocess.run(cmd, shell=True, stdout=subprocess.PIPE, stderr=subprocess.STDOUT, text=True, **kw)


def main():
    want = sys.argv[1:]
    muts = [m for m in MUTANTS if not want or any(m[0].startswith(w) for w in want)]
    if os.path.exists(SCRATCH):
        shutil.rmtree(SCRATCH)
    sh('rsync -a --exclude replays --exclude seeded --exclude harmless --exclude .git %s/ %s/' % (V, SCRATCH))
    # what is measured is the campaign, not the proofs: in the scratch copy every Proofs/Cxx.lean is replaced by a stub, so that a
    # mutated model file does not make the check recompile the whole proof tree (minutes for the low-level files) before its campaign
    for prop in sorted({m[1] for m in muts}):
        open(os.path.join(SCRATCH, 'lean', 'Proofs', prop + '.lean'), 'w').write(
            'namespace Slimta.%s\ntheorem stub : True := trivial\nend Slimta.%s\n' % (prop, prop))
    results = []
    try:
        for name, prop, fname, old, new in muts:
            path = os.path.join(SCRATCH, 'lean', 'Model', fname)
            if old is None:
                continue
            orig = open(os.path.join(V, 'lean', 'Model', fname)).read()
            if orig.count(old) != 1:
                results.append((name, prop, 'STALE (the text to change occurs %d times)' % orig.count(old)))
                print('%-45s %s %s' % (name, prop, results[-1][2]), flush=True)
                continue
            open(path, 'w').write(orig.replace(old, new))
            t0 = time.time()
            b = sh('cd %s/lean && lake build modeldriver' % SCRATCH)
            if b.returncode != 0:
                results.append((name, prop, 'the mutated model does not compile (not a usable mutant)'))
                print('%-45s %s %s' % (name, prop, results[-1][2]), flush=True)
                open(path, 'w').write(orig)
                continue
            r = sh('cd %s && VERIF_NOSEARCH=1 VERIF_NODEEP=1 ./check %s --tier quick' % (SCRATCH, prop))
            out = r.stdout
            m = re.search(r'campaign: (\d+) cases, \d+ distinct non-trivial, (\d+) mismatches, (\d+) monitor hits', out)
            pm = re.search(r'proof stage: (\d+)/(\d+) theorems', out)
            if 'error' in out and not m and not pm:
                verdict = 'model does not build (not a usable mutant): ' + out.strip().splitlines()[-1][:120]
            else:
                mism = int(m.group(2)) if m else -1
                verdict = ('KILLED by the campaign (%d mismatches)' % mism) if mism > 0 else 'SURVIVED the campaign'
                if name in EXPECTED_SURVIVORS and 'SURVIVED' in verdict:
                    verdict = 'SURVIVED as expected (' + EXPECTED_SURVIVORS[name] + ')'
            results.append((name, prop, verdict))
            print('%-45s %s %s (%.0fs)' % (name, prop, verdict, time.time() - t0), flush=True)
            open(path, 'w').write(orig)
    finally:
        shutil.rmtree(SCRATCH, ignore_errors=True)
    killed = sum(1 for r in results if 'KILLED' in r[2])
    exp = sum(1 for r in results if 'SURVIVED as expected' in r[2])
    surv = sum(1 for r in results if 'SURVIVED' in r[2]) - exp
    print('SUMMARY: %d mutants, %d killed by the campaign, %d survived as expected (not observable), %d SURVIVED, %d other' % (
        len(results), killed, exp, surv, len(results) - killed - exp - surv))


if __name__ == '__main__':
    main()
