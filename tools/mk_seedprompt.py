#!/usr/bin/env python3
"""Creates a scratch worktree of /repo under /tmp and the prompt file for one seeding sub-agent.
usage: mk_seedprompt.py <prop> <suffix> [additional direction]
The prompt holds the text of ONE property and nothing from /verif's machinery."""
import json
import os
import subprocess
import sys

prop, suffix = sys.argv[1], sys.argv[2]
direction = sys.argv[3] if len(sys.argv) > 3 else ''
wt = '/tmp/wt_%s%s' % (prop, suffix)
P = None
for l in open(os.path.join(os.path.dirname(__file__), '..', 'properties.jsonl')):
    d = json.loads(l)
    if d['id'] == prop:
        P = d
if not os.path.isdir(wt):
    subprocess.check_call(['git', '-C', '/repo', 'worktree', 'add', '--detach', wt, 'HEAD'], stdout=subprocess.DEVNULL, stderr=subprocess.DEVNULL)
text = '''You are given a scratch git worktree of the open-source library slimta/python-slimta (a gevent-based Python library of mail-transfer-agent building blocks) at WT. Work ONLY inside WT (never touch /repo, never touch /verif, do not commit). Python is /venv/bin/python (3.12); run things as `cd WT && PYTHONPATH=WT /venv/bin/python ...` and confirm once that `import slimta.smtp; slimta.smtp.__file__` points into WT. There is no network.

Here is a semantic property the library is supposed to have:

TITLE: %(title)s

STATEMENT: %(statement)s

QUANTIFIED OVER: %(quantifier)s

RELEVANT CODE: %(anchors)s

ADDITIONAL DIRECTION: %(direction)s A change that needs a particular interleaving, a multi-step sequence, an unusual input, or two cooperating code sites is especially welcome.

YOUR TASK: make ONE small, realistic source change to the library (the kind of regression a maintainer could introduce by accident in a refactor or an "optimisation": 1-15 changed lines, in files under WT/slimta/, not in tests) that BREAKS this property, while
 (a) the library still imports and the existing test suite still passes exactly as before: run `cd WT && PYTHONPATH=WT /venv/bin/python -m pytest -q -p no:cacheprovider --timeout=900 --continue-on-collection-errors test/ 2>&1 | tail -5` before and after your change; the unmodified tree has 449 passing tests and 17 known failures/errors (aws/spf/dns/pkg-resources related: test.test_slimta_cloudstorage_aws, test.test_slimta_util_spf, test_import_slimta_core_slimtaerror, test_repr, test_add_headers, test_alias, test_alias_domain, test_alias_domain_rewrite ...); after your change the set of passing tests must be the same;
 (b) the break needs something SPECIFIC to show up - an unusual input, a particular multi-step sequence, a particular interleaving/timing, a crash point, or two cooperating code sites - i.e. it must NOT be visible on the most ordinary happy-path use (a change that breaks everything is useless);
 (c) you demonstrate the violation with a small standalone script WT/demo.py that uses the real library (run with `cd WT && PYTHONPATH=WT /venv/bin/python demo.py`), prints what it observed, and exits 1 when the property is violated and 0 when it holds; check that it exits 0 on the unmodified code (use `git apply -R patch.diff` / `git apply patch.diff` inside the worktree (git stash is shared between worktrees, do not use it)) and 1 with your change.

Deliverables, all inside WT: your source change left applied in the working tree (uncommitted), demo.py, and a short NOTES.md saying: which file/function you changed and why it breaks the property, what specific condition is needed to trigger it, and the demo output before/after. Finally write the unified diff of the source change only (not demo.py/NOTES.md) to WT/patch.diff using `git -C WT diff -- slimta > WT/patch.diff`.

Be economical: read only the code you need; one good change is enough. Reply with a 5-line summary (file changed, trigger condition, demo result before/after, test-suite result).''' % {
    'title': P['title'], 'statement': P['statement'], 'quantifier': P['quantifier'], 'anchors': json.dumps(P['anchors']), 'direction': direction}
text = text.replace('WT', wt)
os.makedirs('/tmp/seedprompts', exist_ok=True)
open('/tmp/seedprompts/%s%s.txt' % (prop, suffix), 'w').write(text)
print(wt)
