#!/usr/bin/env python3
"""Confirm a seeded change (demo exits 0 without / 1 with it), store it under /verif/seeded/<id>/, and run checks against it.

usage: seed_eval.py <seed-id> <worktree> <property> [<extra-check> ...]
The patch is applied to /repo's working tree for the duration of the checks only and reverted afterwards.
"""
import json, os, shutil, subprocess, sys, time

def sh(cmd, **kw):
    return subprocess.run(cmd, shell=True, stdout=subprocess.PIPE, stderr=subprocess.STDOUT, text=True, **kw)

sid, wt, prop = sys.argv[1], sys.argv[2], sys.argv[3]
checks = [prop] + sys.argv[4:]
dst = '/verif/seeded/%s' % sid
os.makedirs(dst, exist_ok=True)
patch = os.path.join(wt, 'patch.diff')
assert os.path.getsize(patch) > 0, 'empty patch'
# confirm the demo myself
env = 'cd %s && PYTHONPATH=%s timeout 300 /venv/bin/python demo.py' % (wt, wt)
with_change = sh(env)
sh('cd %s && git apply -R patch.diff' % wt)
without = sh(env)
sh('cd %s && git apply patch.diff' % wt)
confirmed = (with_change.returncode == 1 and without.returncode == 0)
print('demo: with change exit %d, without exit %d -> %s' % (with_change.returncode, without.returncode, 'CONFIRMED' if confirmed else 'NOT CONFIRMED'))
for f in ('patch.diff', 'demo.py', 'NOTES.md'):
    if os.path.exists(os.path.join(wt, f)):
        shutil.copy(os.path.join(wt, f), dst)
results = {}
# SEED_EVAL_WT=1: run the checks against the worktree itself (it has the patch applied) through VERIF_REPO, leaving /repo alone — for
# use while a background run needs /repo unchanged
INPLACE = bool(os.environ.get('SEED_EVAL_WT'))
if not INPLACE:
    assert sh('git -C /repo status --porcelain').stdout.strip() == '', '/repo not clean'
    ap = sh('git -C /repo apply %s/patch.diff' % dst)
    assert ap.returncode == 0, ap.stdout
# the evidence files must describe runs on the unchanged tree only: keep them aside while the patch is applied
saved_ev = {c: open('/verif/evidence/%s.json' % c).read() for c in checks if os.path.exists('/verif/evidence/%s.json' % c)}
try:
    for c in checks:
        t0 = time.time()
        r = sh(('cd /verif && VERIF_REPO=%s PYTHONPATH=%s ./check %s --tier quick' % (wt, wt, c)) if INPLACE else ('cd /verif && ./check %s --tier quick' % c))
        viol = [l for l in r.stdout.splitlines() if l.startswith('VIOLATION')]
        results[c] = {'exit': r.returncode, 'violation_line': viol[0] if viol else None, 'seconds': round(time.time() - t0, 1)}
        print('check %s: exit %d %s (%.0fs)' % (c, r.returncode, viol[0] if viol else '', time.time() - t0))
finally:
    if not INPLACE:
        sh('git -C /repo checkout -- .')
    for c, txt in saved_ev.items():
        open('/verif/evidence/%s.json' % c, 'w').write(txt)
meta = {'id': sid, 'property': prop, 'ran_against': 'the worktree with the patch applied (VERIF_REPO)' if INPLACE else '/repo with the patch applied, reverted afterwards', 'confirmed_by_demo': confirmed, 'demo_exit_with_change': with_change.returncode,
        'demo_exit_without_change': without.returncode, 'demo_output_with_change_tail': with_change.stdout[-600:],
        'checks': results, 'caught': any(v['exit'] == 1 and v['violation_line'] for v in results.values()),
        'patch_files': sorted(set(l[6:] for l in open(os.path.join(dst, 'patch.diff')) if l.startswith('+++ b/')))}
json.dump(meta, open(os.path.join(dst, 'meta.json'), 'w'), indent=1)
print('caught' if meta['caught'] else 'MISSED')
