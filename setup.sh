#!/bin/sh
# Offline set-up after a fresh restore: build the Lean model, the proofs and the native model driver.
set -e
cd "$(dirname "$0")"
cd lean
lake build Model Driver modeldriver
lake build Proofs
cd ..
mkdir -p evidence replays
[ -f harness/fakes/cert.pem ] || openssl req -x509 -newkey rsa:2048 -nodes -keyout harness/fakes/key.pem -out harness/fakes/cert.pem -days 3650 -subj /CN=localhost >/dev/null 2>&1 || true
SLIMTA_VERIF=1 /venv/bin/python -c "import sys; sys.path.insert(0,'.'); from harness import core; core.assert_repo_import(); m=core.Model(); assert m.ask('ping')=='pong'; m.close(); print('setup ok')"
